#!/bin/bash
# (re)build the hooks-on harness against $VERIF_REPO (default /repo). Serialised with flock.
set -e
VERIF_DIR="$(cd "$(dirname "$0")/.." && pwd)"
REPO="${VERIF_REPO:-/repo}"
TARGET="${VERIF_TARGET:-$VERIF_DIR/target}"
mkdir -p "$TARGET"
exec 9>"$TARGET/.build.lock"
flock 9
H="$VERIF_DIR/harness"
sed "s#@REPO@#$REPO#g" "$H/Cargo.toml.in" > "$H/Cargo.toml.new"
if ! cmp -s "$H/Cargo.toml.new" "$H/Cargo.toml" 2>/dev/null; then mv "$H/Cargo.toml.new" "$H/Cargo.toml"; else rm "$H/Cargo.toml.new"; fi
if [ ! -f "$H/Cargo.lock" ]; then cp "$REPO/Cargo.lock" "$H/Cargo.lock"; fi
cd "$H"
export CARGO_NET_OFFLINE=true CARGO_TARGET_DIR="$TARGET" RUSTFLAGS="--cfg steel_verif ${VERIF_EXTRA_RUSTFLAGS:-}"
if ! cargo build --offline --quiet 2>"$TARGET/build.log"; then
  cat "$TARGET/build.log" >&2
  echo "MACHINERY-ERROR build failed" >&2
  exit 2
fi
