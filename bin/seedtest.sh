#!/bin/bash
# bin/seedtest.sh <patch.diff> <ID> [<ID>...] : apply a seeded change to /repo, run the quick checks, undo it.
P="$1"; shift
cd /repo || exit 2
if ! git apply --check "$P" 2>/dev/null; then echo "PATCH DOES NOT APPLY: $P"; git apply --check "$P"; exit 3; fi
git apply "$P"
trap 'git -C /repo checkout -- . ; echo "[reverted]"' EXIT
cd /verif; export VERIF_TARGET=${VERIF_TARGET:-/verif/target_seed} VERIF_OUT=${VERIF_OUT:-/tmp/vout}
for id in "$@"; do
  echo "=== $id with $(basename $(dirname $P))/$(basename $P)"
  ./check "$id" --tier "${SEED_TIER:-quick}" 2>&1 | grep -E "^VIOLATION|^C[0-9]+ tier|signature|MACHINERY" | cut -c1-260 | awk -v n=${SEED_LINES:-12} "NR<=n"
done
