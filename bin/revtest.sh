#!/bin/bash
# bin/revtest.sh <fix-commit> <ID> [<ID>...] : revert one fix: commit in /repo's working tree, run the quick checks against a
# separate target dir (target_seed), restore the tree. Shows that the check that found the defect still re-finds it.
C="$1"; shift
cd /repo || exit 2
git show "$C" | git apply -R || exit 3
trap 'git -C /repo checkout -- . ; echo "[restored]"' EXIT
cd /verif
export VERIF_TARGET=/verif/target_seed VERIF_OUT=${VERIF_OUT:-/tmp/vout}
for id in "$@"; do
  echo "=== $id with $C reverted"
  ./check "$id" --tier "${SEED_TIER:-quick}" 2>&1 | grep -E "^VIOLATION|^C[0-9]+ tier|signature|MACHINERY" | cut -c1-300 | awk -v n=${SEED_LINES:-14} "NR<=n"
done
