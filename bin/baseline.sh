#!/bin/bash
# run the repository's own suite (hooks OFF) and compare with BASELINE.json's stable_pass list
REPO="${1:-/repo}"; LOG="${2:-/tmp/baseline.log}"
cd "$REPO" && cargo nextest run --workspace --no-fail-fast --tool-config-file pb:/w/lib/nextest.toml --profile pb --test-threads 8 --offline > "$LOG" 2>&1
grep -E "^\s+FAIL" "$LOG" | sed -E 's/.*\) +//' | sort -u > "$LOG.fails"
grep -E "Summary" "$LOG"
python3 - "$LOG.fails" <<'PY'
import json,sys
stable=set(json.load(open('/root/.vp/BASELINE.json'))['stable_pass'])
fails=[l.strip() for l in open(sys.argv[1]) if l.strip()]
bad=[]
for f in fails:
    parts=f.split(' ',1)
    name=(parts[0]+'::'+parts[1]) if len(parts)==2 else f
    if name in stable: bad.append(name)
print("BASELINE-REGRESSIONS:", bad if bad else "none")
PY
