"""Stateless exploration of thread schedules of the real VM under the controlled scheduler of harness/src/sched.rs (hook H7 gates).
A driver = (definitions, per-thread operation lists); thread 0 is the engine thread which spawns the others, does its own operations and
joins them.  explore() enumerates every schedule with at most `bound` preemptions (depth-first over the scheduling points reported by the
harness, re-executing the program in a fresh forked engine for every schedule)."""
import os, json, itertools
from . import common

WORK = os.path.join(common.VERIF, ".work", "sched")


def run_schedule(pre, prog, choices, env=None, horizon=3000, block_ms=25, dead_ms=1500, timeout_ms=20000):
    """-> (value-or-None, report-or-None, exit)"""
    os.makedirs(WORK, exist_ok=True)
    rp = os.path.join(WORK, "rep-%d.json" % os.getpid())
    if os.path.exists(rp):
        os.remove(rp)
    # the collection plan is switched on without any forced collection: it only arms the use-of-reclaimed-slot counter of hook H4
    steps = [pre, {"op": "gcplan", "on": True}, {"op": "sched_arm", "choices": choices, "report_path": rp, "horizon": horizon, "block_ms": block_ms, "dead_ms": dead_ms}, prog,
             {"op": "sched_report"}, {"op": "counters"}]
    r = common.run_cases([{"id": 0, "steps": steps}], env=env, batch=1, timeout_ms=timeout_ms)[0]
    rep = None
    if os.path.exists(rp):
        try:
            rep = json.load(open(rp))
        except Exception:
            rep = None
        os.remove(rp)
    elif r["exit"] == "normal" and len(r["steps"]) == 6:
        rep = r["steps"][4]["v"][0]
        rep["freed_slot_uses"] = r["steps"][5]["v"][0]
    val = None
    if r["exit"] == "normal" and len(r["steps"]) >= 4:
        st = r["steps"][3]
        val = st["v"][-1] if st["s"] == "ok" and st["v"] else ("ERR:" + st.get("m", "")[:160] if st["s"] == "err" else "PANIC:" + st.get("m", "")[:160])
    return val, rep, r["exit"]


def children(points, prefix_len, bound):
    """alternative prefixes below this execution, with the preemption bound"""
    out = []
    pre = 0
    costs = []
    for p in points:
        costs.append(pre)
        if p["cur_enabled"] and p["chosen"] != p["cur"]:
            pre += 1
    for i in range(prefix_len, len(points)):
        p = points[i]
        for alt in p["enabled"]:
            if alt == p["chosen"]:
                continue
            c = costs[i] + (1 if p["cur_enabled"] and alt != p["cur"] else 0)
            if c <= bound:
                out.append([q["chosen"] for q in points[:i]] + [alt])
    return out


def explore_subtree(pre, prog, root, bound, env=None, maxruns=20000, judge=None):
    """depth-first exploration below `root` (inclusive). judge(val, rep, exit) -> list of (class, detail).
    -> dict(runs, outcomes, failures[(prefix, class, detail)], divergent, capped)"""
    stack = [list(root)]
    runs = 0
    outcomes = {}
    failures = []
    divergent = 0
    maxpoints = 0
    while stack and runs < maxruns:
        prefix = stack.pop()
        val, rep, ex = run_schedule(pre, prog, prefix, env)
        tries = 0
        while rep is not None and rep.get("diverged") and tries < 2:
            val, rep, ex = run_schedule(pre, prog, prefix, env)
            tries += 1
        runs += 1
        if rep is None:
            failures.append((prefix, "machinery" if ex == "normal" else "crash", "no report, exit=%s" % ex))
            continue
        if rep.get("diverged"):
            divergent += 1
            continue
        outcomes[str(val)] = outcomes.get(str(val), 0) + 1
        maxpoints = max(maxpoints, len(rep["points"]))
        for cls, detail in (judge(val, rep, ex) if judge else []):
            failures.append((prefix, cls, detail))
        if rep["outcome"] == "completed":
            stack.extend(children(rep["points"], len(prefix), bound))
        else:
            # a deadlocked execution still has alternatives before the point of no return
            stack.extend(children(rep["points"], len(prefix), bound))
    return {"runs": runs, "outcomes": outcomes, "failures": failures, "divergent": divergent, "capped": bool(stack), "maxpoints": maxpoints}


# ------------------------------------------------------------------ drivers
def op_code(op, tid):
    k = op[0]
    if k == "set":
        return "(set! g %d)" % op[1]
    if k == "read":
        return "(set! acc (cons g acc))"
    if k == "gc":
        return "(#%gc-collect)"
    if k == "alloc":
        return "(set! keep (box %d))" % tid
    if k == "prim":
        return "(car lst)"
    if k == "loop":
        return "(let loop ((i 0)) (if (< i %d) (loop (+ i 1)) i))" % op[1]
    if k == "define":
        return "(eval '(define h%d %d))" % (tid, op[1])
    if k == "readh":
        return "(set! acc (cons (eval 'h%d) acc))" % op[1]
    if k == "send":
        return "(channel/send ch-s 1)"
    if k == "recv":
        return "(channel/recv ch-r)"
    raise ValueError(op)


def thread_body(ops, tid):
    """a thunk that performs the operations and returns the list of values it read (local accumulator)"""
    body = " ".join(op_code(o, tid) for o in ops)
    return "(lambda () (let ((acc '()) (keep #f)) %s (reverse acc)))" % body


PRE = "(define g 0) (define lst (list 1 2)) (define ch (channels/new)) (define ch-s (channels-sender ch)) (define ch-r (channels-receiver ch))"


def driver_program(threads):
    """threads[0] = operations of the engine thread (executed after spawning the others), threads[1..] = spawned threads"""
    n = len(threads) - 1
    spawns = " ".join("(t%d (spawn-native-thread %s))" % (i, thread_body(threads[i], i)) for i in range(1, n + 1))
    joins = " ".join("(thread-join! t%d)" % i for i in range(1, n + 1))
    return "(let* (%s (mine (%s))) (list mine %s g))" % (spawns, thread_body(threads[0], 0), joins)


def reference_outcomes(threads):
    """all results of sequentially consistent interleavings of the script-level reads and writes of g; value = canonical encoding"""
    seqs = [[o for o in t if o[0] in ("set", "read")] for t in threads]
    results = set()

    def go(pos, g, reads):
        if all(pos[i] == len(seqs[i]) for i in range(len(seqs))):
            results.add((tuple(tuple(r) for r in reads), g))
            return
        for i in range(len(seqs)):
            if pos[i] < len(seqs[i]):
                o = seqs[i][pos[i]]
                p2 = list(pos)
                p2[i] += 1
                if o[0] == "set":
                    go(p2, o[1], reads)
                else:
                    r2 = [list(r) for r in reads]
                    r2[i].append(g)
                    go(p2, g, r2)
    go([0] * len(seqs), 0, [[] for _ in seqs])
    out = set()
    for reads, g in results:
        enc = "(lst" + "".join(" (lst" + "".join(" (i %d)" % v for v in r) + ")" for r in reads) + " (i %d))" % g
        out.add(enc)
    return out


def driver_program_phases(earlier, threads):
    """`earlier` = threads that are spawned and joined (one after the other) before the experiment's threads exist; then as driver_program"""
    pre = " ".join("(e%d (thread-join! (spawn-native-thread %s)))" % (i, thread_body(ops, 90 + i)) for i, ops in enumerate(earlier))
    n = len(threads) - 1
    spawns = " ".join("(t%d (spawn-native-thread %s))" % (i, thread_body(threads[i], i)) for i in range(1, n + 1))
    joins = " ".join("(thread-join! t%d)" % i for i in range(1, n + 1))
    return "(let* (%s %s (mine (%s))) (list mine %s g))" % (pre, spawns, thread_body(threads[0], 0), joins)


def reference_outcomes_phases(earlier, threads):
    """sequentially consistent results; the earlier threads run to completion first; recv waits for a send"""
    g0 = 0
    for ops in earlier:
        for o in ops:
            if o[0] == "set":
                g0 = o[1]
    seqs = [[o for o in t if o[0] in ("set", "read", "send", "recv")] for t in threads]
    results = set()

    def go(pos, g, sent, reads):
        if all(pos[i] == len(seqs[i]) for i in range(len(seqs))):
            results.add((tuple(tuple(r) for r in reads), g))
            return
        for i in range(len(seqs)):
            if pos[i] < len(seqs[i]):
                o = seqs[i][pos[i]]
                if o[0] == "recv" and sent == 0:
                    continue
                p2 = list(pos)
                p2[i] += 1
                if o[0] == "set":
                    go(p2, o[1], sent, reads)
                elif o[0] == "send":
                    go(p2, g, sent + 1, reads)
                elif o[0] == "recv":
                    go(p2, g, sent - 1, reads)
                else:
                    r2 = [list(r) for r in reads]
                    r2[i].append(g)
                    go(p2, g, sent, r2)
    go([0] * len(seqs), g0, 0, [[] for _ in seqs])
    out = set()
    for reads, g in results:
        out.add("(lst" + "".join(" (lst" + "".join(" (i %d)" % v for v in r) + ")" for r in reads) + " (i %d))" % g)
    return out
