"""C07 – no input can crash the host; errors are returned and leave the engine usable.
(a) every token sequence up to length L (and every short byte string) submitted for evaluation: Ok or Err, never a panic /
    abort / hang; afterwards a probe program gives its fixed answer and the engine's stacks are empty;
(b) every pure native built-in called with every argument tuple of arity 0..2 over a value alphabet with one value per kind and
    boundary magnitudes; a failing function is narrowed to the single argument tuple;
(c) BFS over histories of good and failing evaluations on one engine with the probe after every step."""
import time, sys, json, re, itertools
from . import common

P = "C07"
TOKENS = ["(", ")", "[", "]", "{", "}", "'", "`", ",", ",@", "#(", "#u8(", ".", "\"", "\\", "|", ";", "#;", "#|", "|#", "#\\",
          "#t", "#%", "a", "λ", "1", "-1", "1/2", "1e3", "+inf.0", "define", "lambda", "let", "if", "set!", "quote", "begin",
          "define-syntax", "syntax-rules", "...", "_", "require", "provide", "#\\a", "\"s\"", "car", "+", "x", "else", "=>"]
BYTES = ["\x00", "\r", "\n", "\t", " ", "(", ")", "\"", "\\", "#", "'", "a", "1", ";", "|", "﻿", "λ", " ", ",", "."]

PROBE_DEF = ("(define (vf-probe) (let loop ((i 0) (acc '())) (if (= i 3) (with-handler (lambda (e) (list 'h (length acc))) "
             "(car (list-tail acc 5))) (loop (+ i 1) (cons (box i) acc)))))")
PROBE_WANT = "(lst (sym \"h\") (i 3))"
ENV = {"STEEL_JIT": "false"}  # a Rust panic under a native frame cannot unwind; JIT on is covered by the second pass


def classify(r, text_step=1):
    """-> (class, detail); class in ok/err/panic/crash/probe/residue"""
    if r["exit"] != "normal":
        return ("crash", r["exit"])
    st = r["steps"]
    if len(st) <= text_step:
        return ("crash", "missing")
    s = st[text_step]
    if s["s"] == "panic":
        return ("panic", s.get("m", "")[:160])
    outcome = s["s"]
    if len(st) > text_step + 1:
        p = st[text_step + 1]
        if p["s"] != "ok" or p["v"][-1] != PROBE_WANT:
            return ("probe", "%s %s" % (p["s"], (p.get("v") or [p.get("m", "")])[-1][:120]))
    if len(st) > text_step + 2:
        d = st[text_step + 2]
        if d.get("v") != [0, 0]:
            return ("residue", str(d.get("v")))
    return (outcome, "")


def work_texts(item):
    env, lst = item
    cases = [{"id": i, "steps": [PROBE_DEF, t, "(vf-probe)", {"op": "depths"}]} for i, t in lst]
    res = common.run_cases(cases, env=env, batch=40, timeout_ms=15000)
    fails, counts = [], {}
    for i, t in lst:
        c, d = classify(res[i])
        if c not in ("ok", "err"):
            # confirm in a child of its own (fresh engine) before reporting
            r2 = common.run_cases([{"id": 0, "steps": [PROBE_DEF, t, "(vf-probe)", {"op": "depths"}]}], env=env, batch=1, timeout_ms=15000)[0]
            c2, d2 = classify(r2)
            if c2 in ("ok", "err"):
                c, d = "history:" + c, d
            else:
                c, d = c2, d2
        counts[c] = counts.get(c, 0) + 1
        if c not in ("ok", "err"):
            fails.append((t, c, d))
    return len(lst), counts, fails


# ---------------------------------------------------------------- built-ins
VALS = ["0", "1", "-1", "2", "255", "256", "55296", "1114112", "4611686018427387904", "9223372036854775807", "-9223372036854775808", "(expt 2 64)",
        "1/2", "0.5", "-0.0", "1e308", "+inf.0", "+nan.0", "\"\"", "\"a\"", "\"λ\"", "#\\a", "'()", "'(1)", "(cons 1 2)",
        "(vector-immutable)", "(vector-immutable 1)", "(vector 1)", "(hash)", "(hash 'a 1)", "(hashset)", "(bytes 1)", "'sym", "void",
        "(lambda () 1)", "(lambda (x) x)", "(box 1)", "(vf-P 1)", "(open-input-string \"x\")", "(eof-object)", "#t",
        "(integer->char 1114111)", "(list 1 2 3)", "(string->symbol \"\")"]
DENY = re.compile(
    r"delete|create-dir|copy-dir|rename|change-current|set-current-dir|set-env|command|spawn|process|kill|thread|channel|lock-|mutex|"
    r"sleep|block-on|poll|futures|local-executor|eval|load|expand|emit|run!|breakpoint|inspect|dump-profiler|Engine::|open-output-file|"
    r"stdin|read!|wait|with-std|with-cur|with-env|without-env|with-cleared|set-piped|set-stdout|set-test|tls|child-|subprocess|receivers|"
    r"which|glob|read-dir|file-metadata|canonicalize|debug-globals|callstack|module|%|attach-contract|make-struct-type|"
    r"call-with-exception-handler|will-|make-will|error-with-span|current-|steel-home|time/|instant|system-time|naive|local-time|"
    r"duration|memory-address|active-object|interner|env-var|path|is-dir|is-file|fs-|open-input-file|read-to-string|read-line|"
    r"write-line|flush|close|stdout|dylib|platform|target|feature|get-test-mode|^#|^values$|^apply$|^transduce$|^void\?$")
NOTE_DENY = "names matching the effect deny-list (file system, processes, threads, channels, time, environment, eval/load, ports to the outside, internal #%/## names)"

N = len(VALS)
# three- and four-argument tuples over smaller alphabets (one value per kind that lets a call get past its first checks)
VALS3 = ["0", "\"a\"", "'(\"a\" \"b\")", "'()", "#\\a", "(lambda (x) x)", "(vector 1)"]
VALS4 = ["1", "\"a\"", "'(\"a\")", "(hash)"]
N3, N4 = len(VALS3), len(VALS4)
T2 = 1 + N + N * N
T3 = T2 + N3 ** 3
TOTAL = T3 + N4 ** 4
BUILTIN_PRELUDE = ("(struct vf-P (a) #:transparent) (define (vf-mk) (vector %s)) (define (vf-mk3) (vector %s)) (define (vf-mk4) (vector %s)) "
                   "(define (vf-try thunk) (with-handler (lambda (e) 'e) (begin (thunk) 'k))) "
                   "(define (vf-call f t vs ws) (cond ((= t 0) (f)) ((<= t {N}) (f (vector-ref vs (- t 1)))) "
                   "((< t {T2}) (let ((u (- t {N} 1))) (f (vector-ref vs (quotient u {N})) (vector-ref ws (remainder u {N}))))) "
                   "((< t {T3}) (let ((u (- t {T2})) (a (vf-mk3)) (b (vf-mk3)) (c (vf-mk3))) (f (vector-ref a (quotient u {N3N3})) (vector-ref b (remainder (quotient u {N3}) {N3})) (vector-ref c (remainder u {N3}))))) "
                   "(else (let ((u (- t {T3})) (a (vf-mk4)) (b (vf-mk4)) (c (vf-mk4)) (d (vf-mk4))) (f (vector-ref a (quotient u {N4c})) (vector-ref b (remainder (quotient u {N4s}) {N4})) "
                   "(vector-ref c (remainder (quotient u {N4}) {N4})) (vector-ref d (remainder u {N4}))))))) "
                   "(define (vf-sweep f start) (let ((vs (vf-mk)) (ws (vf-mk))) (let loop ((t start) (k 0)) (if (>= t {T}) k "
                   "(begin (vf-mark t) (loop (+ t 1) (if (eq? 'k (vf-try (lambda () (vf-call f t vs ws)))) (+ k 1) k)))))))"
                   ).replace("{N3N3}", str(N3 * N3)).replace("{N4c}", str(N4 ** 3)).replace("{N4s}", str(N4 ** 2)).replace("{N3}", str(N3)).replace("{N4}", str(N4)) \
                    .replace("{T2}", str(T2)).replace("{T3}", str(T3)).replace("{N}", str(N)).replace("{T}", str(TOTAL)) % (" ".join(VALS), " ".join(VALS3), " ".join(VALS4))


def call_text(fn, t):
    if t == 0:
        return "(%s)" % fn
    if t <= N:
        return "(%s %s)" % (fn, VALS[t - 1])
    if t < T2:
        u = t - N - 1
        return "(%s %s %s)" % (fn, VALS[u // N], VALS[u % N])
    if t < T3:
        u = t - T2
        return "(%s %s %s %s)" % (fn, VALS3[u // (N3 * N3)], VALS3[(u // N3) % N3], VALS3[u % N3])
    u = t - T3
    return "(%s %s %s %s %s)" % (fn, VALS4[u // N4 ** 3], VALS4[(u // N4 ** 2) % N4], VALS4[(u // N4) % N4], VALS4[u % N4])


def work_builtins(fns):
    """per function: sweep all argument tuples inside the engine; a progress mark written before every call survives the death of the
    child, so a panic / abort / hang is attributed to one call, and the sweep resumes after it in a fresh child"""
    env = dict(ENV, SVH_CHILD_AS_MB="6000")
    calls, oks, fails, capped = 0, 0, [], []
    for f in fns:
        start, hangs, nf, t_fail = 0, 0, 0, 0.0
        while start < TOTAL:
            case = {"id": 0, "stop_on_panic": True, "steps": [BUILTIN_PRELUDE, "(vf-sweep %s %d)" % (f, start), "(+ 1 2)"]}
            _ts = time.time()
            r = common.run_cases([case], env=env, batch=1, timeout_ms=8000, retry_timeouts=False)[0]
            _dt = time.time() - _ts
            if r["exit"] == "timeout" and r.get("last_mark") is not None:
                # a sweep that ran out of time is only a hang of the marked call if that call, alone, also runs out of time
                one = {"id": 0, "stop_on_panic": True, "steps": [BUILTIN_PRELUDE, "(vf-try (lambda () %s))" % call_text(f, r["last_mark"]), "(+ 1 2)"]}
                r1 = common.run_cases([one], env=env, batch=1, timeout_ms=6000, retry_timeouts=False)[0]
                if r1["exit"] == "normal" and len(r1["steps"]) == 3 and r1["steps"][2]["s"] == "ok":
                    # the machine was slow, not the call: resume the sweep after it (the call itself was just evaluated alone)
                    calls += r["last_mark"] - start + 1
                    start = r["last_mark"] + 1
                    continue
            if r["exit"] == "normal" and len(r["steps"]) == 3 and r["steps"][1]["s"] == "ok" and r["steps"][2]["s"] == "ok":
                oks += int(r["steps"][1]["v"][-1][3:-1])
                calls += TOTAL - start
                break
            t = r.get("last_mark")
            if t is None and r["exit"] == "normal" and len(r["steps"]) > 1:
                # caught panic (JIT off): the mark was consumed; re-derive from the panic step? marks precede results, so
                # run_cases dropped it: find it by re-running with marks kept
                t = find_mark(f, start, env)
            if t is None:
                fails.append(("(vf-sweep %s %d)" % (f, start), "sweep fails without a culprit: %s" % r["exit"], json.dumps(r["steps"])[:200]))
                break
            cls = ("crash:" + r["exit"]) if r["exit"] != "normal" else "panic"
            detail = ""
            if r["exit"] == "normal" and len(r["steps"]) > 1:
                detail = r["steps"][1].get("m", "")[:200]
                if r["steps"][1]["s"] == "ok":
                    cls, detail = "unusable-after", json.dumps(r["steps"][2])[:150]
            fails.append((call_text(f, t), cls, detail))
            calls += t - start + 1
            nf += 1
            if r["exit"] == "timeout":
                hangs += 1
            t_fail += _dt
            if hangs >= 3 or nf >= 40 or t_fail > 25:
                capped.append(f)
                break
            start = t + 1
    return len(fns), calls, oks, fails, capped


def find_mark(f, start, env):
    h = common.harness("eval", ("new",), env)
    out, ex = h.request({"cases": [{"id": 0, "stop_on_panic": True, "steps": [BUILTIN_PRELUDE, "(vf-sweep %s %d)" % (f, start)]}], "timeout_ms": 8000})
    marks = [o["mark"] for o in out if "mark" in o]
    return marks[-1] if marks else None


# ---------------------------------------------------------------- histories
EVENTS = [
    ("def", "(define hx{k} {k})", "ok"),
    ("fn", "(define (hf{k} n) (+ n {k}))", "ok"),
    # the same global defined again and again, and a unit that redefines it but fails to build (the last successful value must stay)
    ("redef", "(define hshared {k})", "ok"),
    ("redef-fail", "(begin (define hshared 'bad) (hundefined{k} 2))", "err"),
    ("parse-err", "(car '(1 2", "err"),
    ("free-id", "(begin (define hz{k} 1) (hundefined{k} 2))", "err"),
    ("rt-err", "(begin (define hy{k} 7) (car hy{k}))", "err"),
    ("deep-err", "(map (lambda (x) (vector-ref (vector 1) x)) (list 0 5))", "err"),
    ("macro-err", "(let loop)", "err"),
    ("handler", "(with-handler (lambda (e) 'caught) (car 1))", "ok"),
    ("callcc-err", "(call/cc (lambda (k) (+ 1 (call/cc (lambda (k2) (car 5))))))", "err"),
    ("arity-err", "((lambda (a b) a) 1)", "err"),
    ("raise", "(error \"boom\" {k})", "err"),
    ("dynwind-err", "(dynamic-wind (lambda () 1) (lambda () (car 0)) (lambda () 2))", "err"),
    # first require of a file module inside a unit that then fails to compile (macro use matching no rule) / that succeeds
    ("req-bad", "(require \"{MOD}\") (vfm-mac 1 2 3)", "err"),
    ("req-good", "(require \"{MOD}\") (vfm-val)", "ok"),
]
MODDIR = __import__("os").path.join(common.VERIF, ".work", "c07mod")
MODFILE = __import__("os").path.join(MODDIR, "m.scm")


def ensure_module():
    import os
    os.makedirs(MODDIR, exist_ok=True)
    with open(MODFILE, "w") as fh:
        fh.write("(provide vfm-val vfm-mac)\n(define (vfm-val) 41)\n(define-syntax vfm-mac (syntax-rules () [(_ a) a]))\n")


def work_hist(lst):
    """lst of (id, event-index sequence); after every step: probe, stack depths, and every earlier good definition intact"""
    cases, plans = [], {}
    for hid, seq in lst:
        steps = [PROBE_DEF]
        plan = []
        defs = []
        shared = None
        for k, ei in enumerate(seq):
            name, tmpl, want = EVENTS[ei]
            steps.append(tmpl.replace("{k}", str(k)).replace("{MOD}", MODFILE))
            plan.append(("ev", want, name))
            steps.append("(vf-probe)")
            plan.append(("probe", None, name))
            steps.append({"op": "depths"})
            plan.append(("depths", None, name))
            if name == "def":
                defs.append(("hx%d" % k, "(i %d)" % k))
            if name == "fn":
                defs.append(("(hf%d 1)" % k, "(i %d)" % (k + 1)))
            if name == "rt-err":
                defs.append(("hy%d" % k, "(i 7)"))  # the define executed before the error: stays bound
            if name == "redef":
                shared = k
            alld = defs + ([("hshared", "(i %d)" % shared)] if shared is not None else [])
            if alld:
                steps.append("(list %s)" % " ".join(d for d, w in alld))
                plan.append(("defs", "(lst %s)" % " ".join(w for d, w in alld), name))
        cases.append({"id": hid, "steps": steps})
        plans[hid] = plan
    res = common.run_cases(cases, env=None, batch=1, timeout_ms=30000)
    fails = []
    for hid, seq in lst:
        r = res[hid]
        names = [EVENTS[e][0] for e in seq]
        if r["exit"] != "normal":
            fails.append((names, "crash:" + r["exit"], ""))
            continue
        for (kind, want, ev), st in zip(plans[hid], r["steps"][1:]):
            if st["s"] == "panic":
                fails.append((names, "panic", st.get("m", "")[:150]))
                break
            if kind == "ev" and st["s"] != want:
                fails.append((names, "event %s: want %s got %s" % (ev, want, st["s"]), st.get("m", "")[:150]))
                break
            if kind == "probe" and (st["s"] != "ok" or st["v"][-1] != PROBE_WANT):
                fails.append((names, "probe after %s" % ev, json.dumps(st)[:150]))
                break
            if kind == "depths" and st.get("v") != [0, 0]:
                fails.append((names, "stack residue after %s" % ev, str(st.get("v"))))
                break
            if kind == "defs" and (st["s"] != "ok" or st["v"][-1] != want):
                fails.append((names, "earlier definitions after %s" % ev, json.dumps(st)[:150]))
                break
    return len(lst), fails


def main(argv=None):
    a = common.parse_args(argv)
    if a.replay:
        r = json.load(open(a.replay))
        print(json.dumps(r, indent=1, ensure_ascii=False))
        return common.replay_eval(a.replay) if "case" in r["replay"] or "cases" in r["replay"] else 0
    common.build()
    rep = common.Reporter(P, a.tier)
    thorough = a.tier == "thorough"
    # (a) texts
    texts = []
    L = 3
    for n in range(1, L + 1):
        for t in itertools.product(TOKENS, repeat=n):
            texts.append(" ".join(t))
            if n <= 2:
                texts.append("".join(t))
    if thorough:
        small = TOKENS[:30]
        texts += [" ".join(t) for t in itertools.product(small, repeat=4)]
    for n in range(1, 4 if thorough else 3):
        texts += ["".join(t) for t in itertools.product(BYTES, repeat=n)]
    texts = list(dict.fromkeys(texts))
    items = [(ENV, ch) for ch in common.chunks(list(enumerate(texts)), 2000)]
    # JIT-on pass over the subset that reaches execution most often (every 1- and 2-token text)
    short = [t for t in texts if len(t.split(" ")) <= 2]
    items += [(None, ch) for ch in common.chunks(list(enumerate(short)), 2000)]
    import time as _t
    _t0 = _t.time()
    tres = common.pmap(work_texts, items)
    _t1 = _t.time()
    n_text = sum(r[0] for r in tres)
    tcounts = {}
    for r in tres:
        for k, v in r[1].items():
            tcounts[k] = tcounts.get(k, 0) + v
        for t, c, d in r[2]:
            rep.violation("text %s => %s %s" % (json.dumps(t, ensure_ascii=False), c, re.sub(r"\.rs:\d+", ".rs", d.split(" @ ")[-1][:80])),
                          {"text": t, "class": c, "detail": d}, {"case": {"steps": [PROBE_DEF, t, "(vf-probe)", {"op": "depths"}]}, "env": ENV})
    # (b) built-ins
    nat = common.run_cases([{"id": 0, "steps": [{"op": "natives"}]}], batch=1)[0]["steps"][0]["v"]
    tested = [f for f in nat if not DENY.search(f)]
    denied = [f for f in nat if DENY.search(f) and not f.startswith("#")]
    bres = common.pmap(work_builtins, common.split_round_robin(tested, 64))
    _t2 = _t.time()
    n_calls = sum(r[1] for r in bres)
    n_oks = sum(r[2] for r in bres)
    capped_fns = [f for r in bres for f in r[4]]
    bad = sorted(set(c.split(" ")[0].strip("()") for r in bres for c, _, _ in r[3]))
    seen = set()
    for call, cls, detail in sorted([x for r in bres for x in r[3]], key=lambda x: (x[0].split(" ")[0], len(x[0]))):
        # minimal per (function, failure class, panic location): the first tuple in alphabet order
        # the file of the panic identifies the site; the line number moves with every unrelated edit and is kept out of the signature
        loc = re.sub(r":\d+$", "", detail.split(" @ ")[-1]) if " @ " in detail else ""
        key = (call.split(" ")[0].strip("()"), cls.split(":")[0], loc)
        if key in seen:
            continue
        seen.add(key)
        # the kind of death of a call that exhausts a resource (time-out, abort on allocation failure, kill) depends on the machine's load and
        # memory: one class "crash"; the location is relative to the repository root
        loc = re.sub(r"^.*?/(crates/)", r"\1", loc)
        rep.violation("builtin %s => %s %s" % (call, cls.split(":")[0], loc), {"call": call, "class": cls, "detail": detail},
                      {"case": {"steps": [BUILTIN_PRELUDE, call, "(+ 1 2)"]}, "env": ENV})
    # (c) histories
    depth = 4 if thorough else 3
    ensure_module()
    hists = []
    for n in range(1, depth + 1):
        hists += list(itertools.product(range(len(EVENTS)), repeat=n))
    hres = common.pmap(work_hist, common.chunks(list(enumerate(hists)), 120))
    _t3 = _t.time()
    n_hist = sum(r[0] for r in hres)
    hf = sorted([f for r in hres for f in r[1]], key=lambda f: (len(f[0]), f[0]))
    hkept = []
    for names, why, detail in hf:
        if any(k == names[-len(k):] or " ".join(k) in " ".join(names) for k in hkept):
            continue  # a shorter failing history is contained in this one
        hkept.append(names)
        rep.violation("history %s => %s" % (" ; ".join(names), why), {"history": names, "why": why, "detail": detail},
                      {"case": {"steps": [PROBE_DEF] + [EVENTS[[e[0] for e in EVENTS].index(nm)][1].replace("{k}", str(k)).replace("{MOD}", MODFILE) for k, nm in enumerate(names)] + ["(vf-probe)", {"op": "depths"}]}, "env": None})
    cov = {"evaluations": n_text + n_calls + n_hist,
           "distinct_nontrivial": tcounts.get("ok", 0) + n_oks + n_hist,
           "rule": "(a) every sequence of <= %d tokens from a %d-token menu (space-joined, and unspaced up to 2) and every string of <= %d "
                   "characters over a %d-character byte-level alphabet, evaluated with JIT off (all) and JIT on (<= 2 tokens), probe + stack depths "
                   "after each; (b) %d pure native built-ins x every argument tuple of arity 0..2 over %d values (one per kind + boundary "
                   "magnitudes), every 3-tuple over 7 and every 4-tuple over 4 values, in-engine loops, failing functions narrowed to single calls in separate children; (c) every history of <= %d events "
                   "from %d event kinds with probe/stack/definition checks after every step. non-trivial = texts that evaluate without error, "
                   "built-in calls that return a value, histories" % (L, len(TOKENS), 3 if thorough else 2, len(BYTES), len(tested), len(VALS), depth, len(EVENTS)),
           "samples": [texts[4000], texts[-5], "(%s %s %s)" % (tested[100], VALS[6], VALS[20]), " ; ".join(EVENTS[e][0] for e in hists[-7])],
           "exhaustive": True, "texts": n_text, "text_outcomes": tcounts, "builtins_tested": len(tested), "builtin_calls": n_calls,
           "builtin_calls_returning": n_oks, "builtins_denied": denied, "deny_rule": NOTE_DENY, "histories": n_hist,
           "builtins_needing_narrowing": bad, "phase_seconds": {"texts": round(_t1 - _t0), "builtins": round(_t2 - _t1), "histories": round(_t3 - _t2)},
           "narrowing_capped_after_3_hangs_or_25s_or_40_failures": capped_fns}
    return rep.finish("exploration", cov, assumptions=[
        "effectful built-ins are excluded by name (listed in coverage.builtins_denied)",
        "child address space limited to 6 GB: allocation failure counts as a crash of the host",
        "panics are attributed with JIT off (catch_unwind); with JIT on they abort the child and are reported as crash"])


if __name__ == "__main__":
    sys.exit(main())
