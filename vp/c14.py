"""C14 – modules expose exactly what they provide (after only-in / prefix-in / renaming) and are instantiated once per engine.
Enumerated: acyclic module graphs on up to 4 generated files (single, chain, fan-in, diamond, diamond + direct edge, chain of 3) x a
profile per module (x / y private, provided, provided with contract/out; every module also has a private `helper` of the same spelling
and a provided aggregate that mentions everything it imported) x a modifier per edge (plain, only-in, only-in with renaming, prefix-in,
prefix-in around only-in (with and without renaming), only-in swapping two names, only-in naming a private identifier; the requires of one program in one compilation unit or one unit each) x every ordered sequence of up to 3 main programs requiring subsets of
the graph on ONE engine (also the same program twice), optionally with the requiring program defining `helper` / `x` itself; plus
histories in which a module fails (syntax error / free identifier / run-time error in its body) and is corrected and required again.
Oracle: a Python model of visibility and values – every identifier of the candidate universe (every name x every prefix in play) is
probed in a compilation unit of its own and must give exactly the model's value, a contract error, or a free-identifier error; each
module's body prints a marker and the markers printed over the whole history must be exactly one per instantiated module.
Run with and without cross-module inlining (STEEL_MODULE_INLINE)."""
import sys, os, json, itertools, shutil
from . import common

P = "C14"
WORK = os.path.join(common.VERIF, ".work", "c14mod")

# module profiles: status of x and y: "-" absent, "p" private, "e" exported, "c" exported with contract/out (y only)
PROFILES = [("e", "e"), ("e", "c"), ("p", "e"), ("e", "p"), ("p", "p"), ("-", "c"), ("e", "-")]
# edge modifiers
MODS = ["plain", "only-x", "only-rename", "prefix", "prefix-only", "prefix-rename", "only-swap", "only-private"]
NI = 7  # modifiers usable on internal edges (all but the one naming a private identifier)

SHAPES = {
    "single": {"d": []},
    "chain": {"b": ["d"], "d": []},
    "fan-in": {"b": [], "c": []},
    "diamond": {"b": ["d"], "c": ["d"], "d": []},
    "chain3": {"a": ["b"], "b": ["d"], "d": []},
}
MAIN_TARGETS = {"single": ["d"], "chain": ["b", "d"], "fan-in": ["b", "c"], "diamond": ["b", "c", "d"], "chain3": ["a", "b", "d"]}


def sym(s):
    return "(sym \"%s\")" % s


def lst(*xs):
    return "(lst" + "".join(" " + x for x in xs) + ")"


class Model:
    """values are canonical encodings; functions are ("fn", module, contract?)"""

    def __init__(self, graph, profiles, imods):
        self.graph, self.profiles, self.imods = graph, profiles, imods
        self.cache = {}

    def exports(self, m):
        if m in self.cache:
            return self.cache[m]
        px, py = self.profiles[m]
        h = sym(m + "-helper")
        ex = {}
        if px == "e":
            ex["x"] = lst(sym(m), sym("x"), h)
        if py in ("e", "c"):
            ex["y"] = ("fn", m, py == "c")
        if py == "c":
            ex["self-call"] = lst(sym(m), sym("y"), sym("inside"), h)
        imports = []
        for t in self.graph[m]:
            vis = self.visible(t, self.imods[(m, t)], t + ".")
            for name in sorted(vis):
                imports.append(self.probe_value(vis[name]))
        ex["v" + m] = lst(sym(m), sym("v"), h, *imports)
        self.cache[m] = ex
        return ex

    def call(self, fn, arg_enc, arg_is_number):
        _, m, contract = fn
        if contract and not arg_is_number:
            return "ERR"
        return lst(sym(m), sym("y"), arg_enc, sym(m + "-helper"))

    def probe_value(self, v):
        return self.call(v, "(i 1)", True) if isinstance(v, tuple) else v

    def visible(self, t, mod, prefix):
        ex = self.exports(t)
        if mod == "plain":
            return dict(ex)
        if mod == "only-x":
            return {k: v for k, v in ex.items() if k == "x"}
        if mod == "only-rename":
            out = {}
            if "x" in ex:
                out["x2"] = ex["x"]
            if "y" in ex:
                out["y"] = ex["y"]
            return out
        if mod == "prefix":
            return {prefix + k: v for k, v in ex.items()}
        if mod == "prefix-only":
            return {prefix + k: v for k, v in ex.items() if k == "x"}
        if mod == "prefix-rename":
            out = {}
            if "x" in ex:
                out[prefix + "x2"] = ex["x"]
            if "y" in ex:
                out[prefix + "y"] = ex["y"]
            return out
        if mod == "only-swap":
            out = {}
            if "x" in ex:
                out["y"] = ex["x"]
            if "y" in ex:
                out["x"] = ex["y"]
            return out
        if mod == "only-private":
            return {}
        raise ValueError(mod)


def require_text(path, mod, prefix):
    f = "\"%s\"" % path
    return {"plain": "(require %s)" % f, "only-x": "(require (only-in %s x))" % f, "only-rename": "(require (only-in %s [x x2] y))" % f,
            "prefix": "(require (prefix-in %s %s))" % (prefix, f), "prefix-only": "(require (prefix-in %s (only-in %s x)))" % (prefix, f),
            "prefix-rename": "(require (prefix-in %s (only-in %s [x x2] y)))" % (prefix, f), "only-swap": "(require (only-in %s [x y] [y x]))" % f,
            "only-private": "(require (only-in %s helper [helper h2]))" % f}[mod]


def module_text(m, graph, profiles, imods, model, d):
    px, py = profiles[m]
    lines = []
    for t in graph[m]:
        lines.append(require_text(os.path.join(d, t + ".scm"), imods[(m, t)], t + "."))
    prov = ["v" + m]
    if px == "e":
        prov.append("x")
    if py == "e":
        prov.append("y")
    if py == "c":
        prov += ["(contract/out y (->/c number? any/c))", "self-call"]
    lines.append("(provide %s)" % " ".join(prov))
    lines.append("(displayln \"INIT-%s\")" % m)
    lines.append("(define (helper) '%s-helper)" % m)
    if px != "-":
        lines.append("(define x (list '%s 'x (helper)))" % m)
    if py != "-":
        lines.append("(define (y n) (list '%s 'y n (helper)))" % m)
    if py == "c":
        lines.append("(define self-call (y 'inside))")
    imports = []
    for t in graph[m]:
        vis = model.visible(t, imods[(m, t)], t + ".")
        for name in sorted(vis):
            imports.append("(%s 1)" % name if isinstance(vis[name], tuple) else name)
    lines.append("(define v%s (list '%s 'v (helper) %s))" % (m, m, " ".join(imports)))
    return "\n".join(lines) + "\n"


def internal_ok(m, graph, profiles, imods, model):
    """internal requires must not collide with the module's own names or with each other"""
    own = {"helper", "v" + m} | ({"x"} if profiles[m][0] != "-" else set()) | ({"y", "self-call"} if profiles[m][1] != "-" else set())
    seen = set(own)
    for t in graph[m]:
        for name in model.visible(t, imods[(m, t)], t + "."):
            if name in seen:
                return False
            seen.add(name)
    return True


def candidates(graph, prefixes):
    names = ["x", "y", "x2", "helper", "h2", "self-call"] + ["v" + m for m in graph]
    out = list(names)
    for p in prefixes:
        out += [p + n for n in names]
    return out


def build_case(shape, profiles, imods, programs, main_defs, cid):
    """programs: list of lists of (target, modifier, prefix); returns (files, steps, expectations) where expectations is a list of
    (step index, kind, expected) with kind in value / free / init"""
    graph = SHAPES[shape]
    d = os.path.join(WORK, cid)
    model = Model(graph, profiles, imods)
    files = {m + ".scm": module_text(m, graph, profiles, imods, model, d) for m in graph}
    steps, exp = [], []
    env = {}
    if "helper" in main_defs:
        steps.append("(define (helper) 'main-helper)")
        env["helper"] = ("mainfn",)
    if "x-before" in main_defs:
        steps.append("(define x 'main-x)")
        env["x"] = sym("main-x")
    prefixes = sorted(set(pf for prog in programs for _, _, pf in prog))
    cands = candidates(graph, prefixes)
    instantiated = set()

    def closure(t):
        out = {t}
        for u in graph[t]:
            out |= closure(u)
        return out
    for prog in programs:
        texts = []
        for t, mod, pf in prog:
            texts.append(require_text(os.path.join(d, t + ".scm"), mod, pf))
            env.update(model.visible(t, mod, pf))
            instantiated |= closure(t)
        # all requires of a program in one compilation unit, or one unit each
        for txt in ([" ".join(texts)] if "same-unit" in main_defs else texts):
            steps.append(txt)
            exp.append((len(steps) - 1, "require-ok", None))
        for c in cands:
            v = env.get(c)
            if v is None:
                steps.append(c)
                exp.append((len(steps) - 1, "free", c))
            elif v == ("mainfn",):
                steps.append("(%s)" % c)
                exp.append((len(steps) - 1, "value", sym("main-helper")))
            elif isinstance(v, tuple):
                steps.append("(%s 1)" % c)
                exp.append((len(steps) - 1, "value", model.call(v, "(i 1)", True)))
                steps.append("(%s 'q)" % c)
                exp.append((len(steps) - 1, "value", model.call(v, sym("q"), False)))
            else:
                steps.append(c)
                exp.append((len(steps) - 1, "value", v))
    return files, steps, exp, sorted(instantiated), sorted(graph)


def check_case(case, env):
    shape, profiles, imods, programs, main_defs, cid = case
    files, steps, exp, inst, mods = build_case(*case)
    d = os.path.join(WORK, cid)
    os.makedirs(d, exist_ok=True)
    for fn, txt in files.items():
        with open(os.path.join(d, fn), "w") as fh:
            fh.write(txt)
    try:
        r = common.run_cases([{"id": 0, "steps": steps}], env=env, batch=1, timeout_ms=60000)[0]
    finally:
        shutil.rmtree(d, ignore_errors=True)
    fails = []
    if r["exit"] != "normal" or len(r["steps"]) != len(steps):
        return [("crash", "engine exit %s after %d of %d steps" % (r["exit"], len(r["steps"]), len(steps)), None)], files, steps
    for idx, kind, want in exp:
        st = r["steps"][idx]
        txt = steps[idx].replace(d + "/", "")
        if st["s"] == "panic":
            fails.append(("panic", txt, st.get("m", "")[:100]))
        elif kind == "require-ok":
            if st["s"] != "ok":
                fails.append(("require-failed", txt, st.get("m", "")[:100]))
        elif kind == "free":
            if not (st["s"] == "err" and st.get("k") == "FreeIdentifier"):
                fails.append(("leak", txt, "visible although not provided/imported: %s" % (st.get("v") or [st.get("m", "")])[-1][:100]))
        else:
            if want == "ERR":
                if st["s"] != "err" or st.get("k") == "FreeIdentifier":
                    fails.append(("contract-not-checked", txt, (st.get("v") or [st.get("m", "")])[-1][:100]))
            elif st["s"] != "ok":
                fails.append(("missing" if st.get("k") == "FreeIdentifier" else "error", txt, st.get("m", "")[:100]))
            elif st["v"][-1] != want:
                fails.append(("wrong-binding", txt, "want %s got %s" % (want, st["v"][-1][:160])))
    out = "".join(st.get("out", "") for st in r["steps"])
    for m in mods:
        n = out.count("INIT-%s\n" % m)
        w = 1 if m in inst else 0
        if n != w:
            fails.append(("instantiation", "module %s" % m, "body evaluated %d times, expected %d" % (n, w)))
    return fails, files, steps


def gen_cases(tier):
    thorough = tier == "thorough"
    cases = []
    k = 0

    def add(shape, profiles, imods, programs, main_defs):
        nonlocal k
        graph = SHAPES[shape]
        model = Model(graph, profiles, imods)
        if not all(internal_ok(m, graph, profiles, imods, model) for m in graph):
            return
        cases.append((shape, profiles, imods, programs, main_defs, "c%d" % k))
        k += 1
    # 1. single module: every profile x every modifier x main definitions; the require repeated (same and other modifier)
    for pr in PROFILES:
        for mod in MODS:
            for md in ((), ("helper",), ("x-before",), ("helper", "x-before")):
                add("single", {"d": pr}, {}, [[("d", mod, "p.")]], md)
            for mod2 in MODS:
                add("single", {"d": pr}, {}, [[("d", mod, "p.")], [("d", mod2, "q.")]], ("helper",))
    # 2. chain b -> d: profiles of both x internal modifier x main modifier on b, then d
    for prb in PROFILES if thorough else PROFILES[:5]:
        for prd in PROFILES:
            for im in MODS[:NI]:
                for mm in (MODS if thorough else ("plain", "prefix", "only-rename", "prefix-rename")):
                    add("chain", {"b": prb, "d": prd}, {("b", "d"): im}, [[("b", mm, "p.")]], ("helper",))
                add("chain", {"b": prb, "d": prd}, {("b", "d"): im}, [[("b", "prefix", "p.")], [("d", "plain", "q.")]], ())
                add("chain", {"b": prb, "d": prd}, {("b", "d"): im}, [[("d", "prefix", "p.")], [("b", "plain", "q.")]], ())
    # 3. fan-in: two unrelated modules with identical private and provided names, all ordered pairs of modifiers (same prefix on purpose too)
    for prb, prc in itertools.product(PROFILES[:4] if not thorough else PROFILES, repeat=2):
        for m1, m2 in itertools.product(MODS[:NI], repeat=2):
            if not thorough and (MODS.index(m1) + MODS.index(m2) + PROFILES.index(prb)) % 2:
                continue
            add("fan-in", {"b": prb, "c": prc}, {}, [[("b", m1, "p."), ("c", m2, "q.")]], ("helper",))
            add("fan-in", {"b": prb, "c": prc}, {}, [[("b", m1, "p.")], [("c", m2, "p.")]], ())
            add("fan-in", {"b": prb, "c": prc}, {}, [[("b", m1, "p."), ("c", m2, "q.")]], ("same-unit",))
    # 4. diamond: every ordered sequence of up to 3 main programs requiring subsets; internal modifiers vary
    subsets = [[("b", "prefix", "pb.")], [("c", "prefix", "pc.")], [("d", "plain", "pd.")], [("b", "plain", "pb."), ("c", "prefix", "pc.")]]
    seqs = []
    for n in (1, 2, 3):
        seqs += [list(s) for s in itertools.permutations(subsets, n)]
    seqs += [[subsets[0], subsets[0]], [subsets[2], subsets[2], subsets[0]]]
    dprofiles = [("e", "c"), ("e", "e"), ("p", "e")] if not thorough else PROFILES[:6]
    for prd in dprofiles:
        for imb, imc in (itertools.product(MODS[:NI], repeat=2) if thorough else (("prefix", "prefix"), ("plain", "prefix-only"), ("only-rename", "plain"), ("only-x", "prefix"), ("prefix-rename", "only-swap"))):
            for prb, prc in ((("-", "-"), ("-", "-")), (("e", "e"), ("e", "p")), (("p", "p"), ("e", "c"))):
                for sq in seqs:
                    add("diamond", {"b": prb, "c": prc, "d": prd}, {("b", "d"): imb, ("c", "d"): imc}, sq, ("helper",))
                add("diamond", {"b": prb, "c": prc, "d": prd}, {("b", "d"): imb, ("c", "d"): imc}, [[("d", "only-rename", "pd."), ("b", "plain", "pb."), ("c", "prefix", "pc.")]], ("same-unit",))
                add("diamond", {"b": prb, "c": prc, "d": prd}, {("b", "d"): imb, ("c", "d"): imc}, [[("b", "only-x", "pb."), ("d", "plain", "pd.")], [("c", "prefix-rename", "pc.")]], ("same-unit",))
    # 5. chain of three
    for pra, prb, prd in itertools.product(PROFILES[:3] if not thorough else PROFILES[:5], repeat=3):
        for im1, im2 in (("prefix", "prefix"), ("plain", "plain"), ("only-rename", "prefix-only"), ("prefix-rename", "only-swap")):
            for sq in ([[("a", "plain", "p.")]], [[("d", "prefix", "p.")], [("a", "plain", "q.")]], [[("a", "prefix", "p.")], [("b", "prefix", "q.")], [("d", "prefix", "r.")]]):
                add("chain3", {"a": pra, "b": prb, "d": prd}, {("a", "b"): im1, ("b", "d"): im2}, sq, ())
    return cases


# ---- contract boundary grid: arity 0..4, a different predicate per domain position, every argument tuple over one value per predicate
KINDS = [("number?", "1", "(i 1)"), ("string?", "\"s\"", "(str \"s\")"), ("symbol?", "'q", "(sym \"q\")"), ("list?", "(list 1)", "(lst (i 1))")]


def contract_module():
    prov, defs = [], []
    for n in range(5):
        args = " ".join("a%d" % i for i in range(n))
        prov.append("(contract/out f%d (->/c %s any/c))" % (n, " ".join(k[0] for k in KINDS[:n])))
        defs.append("(define (f%d %s) (list 'f%d %s))" % (n, args, n, args))
        # called from inside the module with arguments that violate every position: no check may happen
        bad = " ".join(KINDS[(i + 1) % 4][1] for i in range(n))
        defs.append("(define in%d (f%d %s))" % (n, n, bad))
        prov.append("in%d" % n)
    prov.append("(contract/out r1 (->/c any/c number?))")
    defs.append("(define (r1 a) a)")
    defs.append("(define inr (r1 'not-a-number))")
    prov.append("inr")
    prov.append("(contract/out r3 (->/c number? string? symbol? string?))")
    defs.append("(define (r3 a b c) (if (= a 0) c b))")
    return "(provide %s)\n%s\n" % (" ".join(prov), "\n".join(defs))


def work_contract(item):
    env, mode = item
    d = os.path.join(WORK, "contract-%s%s" % (mode, "i" if env else ""))
    os.makedirs(d, exist_ok=True)
    with open(os.path.join(d, "k.scm"), "w") as fh:
        fh.write(contract_module())
    with open(os.path.join(d, "mid.scm"), "w") as fh:
        fh.write("(require \"%s\")\n(provide f0 f1 f2 f3 f4 r1 r3 in0 in1 in2 in3 in4 inr)\n" % os.path.join(d, "k.scm"))
    pre = {"plain": "", "prefix": "k.", "reexport": ""}[mode]
    steps = [{"plain": "(require \"%s\")" % os.path.join(d, "k.scm"), "prefix": "(require (prefix-in k. \"%s\"))" % os.path.join(d, "k.scm"),
              "reexport": "(require \"%s\")" % os.path.join(d, "mid.scm")}[mode]]
    want = [None]
    for n in range(5):
        for tup in itertools.product(range(4), repeat=n):
            steps.append("(%sf%d %s)" % (pre, n, " ".join(KINDS[k][1] for k in tup)))
            ok = all(k == i for i, k in enumerate(tup))
            want.append(lst(sym("f%d" % n), *[KINDS[k][2] for k in tup]) if ok else "ERR")
        steps.append("%sin%d" % (pre, n))
        want.append(lst(sym("f%d" % n), *[KINDS[(i + 1) % 4][2] for i in range(n)]))
    for arg, w in (("5", "(i 5)"), ("'z", "ERR"), ("\"s\"", "ERR")):
        steps.append("(%sr1 %s)" % (pre, arg))
        want.append(w)
    steps.append(pre + "inr")
    want.append(sym("not-a-number"))
    for args, w in (("1 \"s\" 'q", "(str \"s\")"), ("0 \"s\" 'q", "ERR"), ("1 \"s\" \"t\"", "ERR"), ("1 'q 'q", "ERR")):
        steps.append("(%sr3 %s)" % (pre, args))
        want.append(w)
    try:
        r = common.run_cases([{"id": 0, "steps": steps}], env=env, batch=1, timeout_ms=120000)[0]
    finally:
        shutil.rmtree(d, ignore_errors=True)
    fails = []
    if r["exit"] != "normal" or len(r["steps"]) != len(steps):
        return len(steps), [("crash", "contract grid (%s): engine exit %s after %d steps" % (mode, r["exit"], len(r["steps"])), "")], contract_module()
    for s, w, st in zip(steps, want, r["steps"]):
        if w is None:
            if st["s"] != "ok":
                fails.append(("require-failed", s.replace(d + "/", ""), st.get("m", "")[:100]))
        elif st["s"] == "panic":
            fails.append(("panic", s, st.get("m", "")[:100]))
        elif w == "ERR":
            if st["s"] != "err" or st.get("k") == "FreeIdentifier":
                fails.append(("contract-not-checked", s, "returned %s" % (st.get("v") or [st.get("m", "")])[-1][:100]))
        elif st["s"] != "ok":
            fails.append(("contract-rejects-valid-call" if not s.startswith(pre + "in") else "contract-checked-inside-module", s, st.get("m", "")[:100]))
        elif st["v"][-1] != w:
            fails.append(("wrong-value", s, "want %s got %s" % (w, st["v"][-1][:100])))
    return len(steps), fails, contract_module()


class _NoRedirect:
    pass


def ser(case):
    shape, profiles, imods, programs, main_defs, cid = case
    return {"shape": shape, "profiles": profiles, "imods": {"%s->%s" % k: v for k, v in imods.items()}, "programs": programs, "main_defs": list(main_defs)}


def work(item):
    env, todo = item
    out = []
    for case in todo:
        case = case[:5] + (case[5] + ("i" if env else ""),)
        fails, files, steps = check_case(case, env)
        if fails:
            out.append((ser(case), fails, files, [s.replace(os.path.join(WORK, case[5]) + "/", "") for s in steps]))
    return len(todo), out


# ---- failure-and-correction histories
BROKEN = {"syntax": "(define broken (", "free": "(define broken (undefined-thing 1))", "runtime": "(define broken (car 1))", "arity": "(define broken ((lambda (a) a)))"}


def recovery_cases():
    cases = []
    for kind in BROKEN:
        for where in ("c", "d"):  # the broken module is the one required directly (c) or its dependency (d)
            for first in (None, "b"):  # optionally a sibling that shares the dependency was loaded before
                cases.append((kind, where, first))
    return cases


def work_recovery(item):
    env, todo = item
    out = []
    for kind, where, first in todo:
        cid = "r%s%s%s%s" % (kind, where, first, "i" if env else "")
        d = os.path.join(WORK, cid)
        os.makedirs(d, exist_ok=True)
        graph = SHAPES["diamond"]
        profiles = {"b": ("e", "e"), "c": ("e", "e"), "d": ("e", "c")}
        imods = {("b", "d"): "prefix", ("c", "d"): "prefix"}
        model = Model(graph, profiles, imods)
        good = {m: module_text(m, graph, profiles, imods, model, d) for m in graph}
        bad = dict(good)
        bad[where] = good[where] + BROKEN[kind] + "\n"
        fix_marker = "FIXFILE:" + where
        steps = []
        if first:
            steps.append(require_text(os.path.join(d, "b.scm"), "prefix", "pb."))
        steps += [require_text(os.path.join(d, "c.scm"), "prefix", "pc."), fix_marker, require_text(os.path.join(d, "c.scm"), "prefix", "pc."), "pc.vc", "pc.x", "(pc.y 2)",
                  require_text(os.path.join(d, "b.scm"), "prefix", "pb."), "pb.vb", require_text(os.path.join(d, "d.scm"), "prefix", "pd."), "pd.x", "(pd.y 'q)", "pd.helper"]
        # the file has to change between two steps of one engine: run the history in two halves is not possible (one engine), so the
        # harness op "writefile" rewrites it
        real_steps = []
        for s in steps:
            if s == fix_marker:
                real_steps.append({"op": "writefile", "path": os.path.join(d, where + ".scm"), "text": good[where]})
            else:
                real_steps.append(s)
        for m in graph:
            with open(os.path.join(d, m + ".scm"), "w") as fh:
                fh.write(bad[m])
        try:
            r = common.run_cases([{"id": 0, "steps": real_steps}], env=env, batch=1, timeout_ms=60000)[0]
        finally:
            shutil.rmtree(d, ignore_errors=True)
        fails = []
        if r["exit"] != "normal" or len(r["steps"]) != len(real_steps):
            out.append(((kind, where, first), [("crash", "engine exit %s after %d steps" % (r["exit"], len(r["steps"])), None)], bad, steps))
            continue
        base = 1 if first else 0
        st = r["steps"]
        if st[base]["s"] == "ok":
            fails.append(("broken-module-accepted", "require of the broken module graph", ""))
        if st[base]["s"] == "panic":
            fails.append(("panic", "require of the broken module graph", st[base].get("m", "")[:100]))
        want = {"pc.vc": model.exports("c")["vc"], "pc.x": model.exports("c")["x"], "(pc.y 2)": lst(sym("c"), sym("y"), "(i 2)", sym("c-helper")),
                "pb.vb": model.exports("b")["vb"], "pd.x": model.exports("d")["x"], "(pd.y 'q)": "ERR", "pd.helper": "FREE"}
        for i, s in enumerate(steps):
            if i <= base + 1:
                continue
            x = st[i]
            if s.startswith("(require"):
                if x["s"] != "ok":
                    fails.append(("require-failed-after-correction", s.replace(d + "/", ""), x.get("m", "")[:120]))
            elif want[s] == "ERR":
                if x["s"] != "err" or x.get("k") == "FreeIdentifier":
                    fails.append(("contract-not-checked", s, str(x.get("v"))[:80]))
            elif want[s] == "FREE":
                if not (x["s"] == "err" and x.get("k") == "FreeIdentifier"):
                    fails.append(("leak", s, str(x.get("v"))[:80]))
            elif x["s"] != "ok" or x["v"][-1] != want[s]:
                fails.append(("wrong-after-correction", s, (x.get("v") or [x.get("m", "")])[-1][:120]))
        outp = "".join(x.get("out", "") for x in st)
        for m in graph:
            n = outp.count("INIT-%s\n" % m)
            # a body that failed half-way may be evaluated again after the correction; a body that completed must not
            completed_before_failure = (m == "d" and where == "c" and kind in ("runtime", "arity")) or (m in ("b", "d") and first and where == "c") or (m == "b" and first)
            lo, hi = 1, (1 if (m != where or kind in ("syntax", "free")) else 2)
            if m != where and not completed_before_failure and kind in ("runtime", "arity"):
                hi = max(hi, 1)
            if not (lo <= n <= hi):
                fails.append(("instantiation", "module %s" % m, "body evaluated %d times over the history, expected %d..%d" % (n, lo, hi)))
        if fails:
            out.append(((kind, where, first), fails, bad, [s.replace(d + "/", "") for s in steps]))
    return len(todo), out


def main(argv=None):
    a = common.parse_args(argv)
    if a.replay:
        return common.replay_eval(a.replay)
    common.build()
    rep = common.Reporter(P, a.tier)
    shutil.rmtree(WORK, ignore_errors=True)
    cases = gen_cases(a.tier)
    envs = [None, {"STEEL_MODULE_INLINE": "1"}]
    items = []
    for ei, env in enumerate(envs):
        sel = cases if (ei == 0 or a.tier == "thorough") else cases[::4]
        items += [(env, ch) for ch in common.chunks(sel, 12)]
    res = common.pmap(work, items)
    n = sum(r[0] for r in res)
    seen = set()
    allf = [f for r in res for f in r[1]]
    allf.sort(key=lambda f: (len(f[3]), json.dumps(f[0], sort_keys=True)))
    for case, fails, files, steps in allf:
        for cls, what, detail in fails:
            # one report per (failure class, probe text, shape): the smallest history showing it
            key = (cls, what, case["shape"])
            if key in seen:
                continue
            seen.add(key)
            rep.violation("%s :: %s :: shape %s, smallest history: %s" % (cls, what, case["shape"], " | ".join(s for s in steps if s.startswith("(require") or s.startswith("(define"))),
                          {"class": cls, "probe": what, "detail": detail, "case": case, "files": files}, {"case": {"steps": steps}, "files": files, "env": None})
    rc = recovery_cases()
    rres = common.pmap(work_recovery, [(env, [c]) for env in envs for c in rc])
    n_rec = sum(r[0] for r in rres)
    rseen = set()
    for key, fails, files, steps in sorted([f for r in rres for f in r[1]], key=lambda f: str(f[0])):
        for cls, what, detail in fails:
            k2 = (cls, what, key[0], key[1])
            if k2 in rseen:
                continue
            rseen.add(k2)
            rep.violation("recovery %s in %s%s :: %s :: %s %s" % (key[0], key[1], " (sibling loaded first)" if key[2] else "", cls, what, detail),
                          {"history": key, "class": cls, "probe": what, "detail": detail, "files": files, "steps": steps}, {"case": {"steps": steps}, "files": files, "env": None})
    cres = common.pmap(work_contract, [(env, mode) for env in envs for mode in ("plain", "prefix", "reexport")])
    n_con = sum(r[0] for r in cres)
    cseen = set()
    for r, (env, mode) in zip(cres, [(env, mode) for env in envs for mode in ("plain", "prefix", "reexport")]):
        for cls, what, detail in r[1]:
            key = (cls, what.replace("k.", ""))
            if key in cseen:
                continue
            cseen.add(key)
            rep.violation("contract boundary :: %s :: %s %s" % (cls, what.replace("k.", ""), detail), {"class": cls, "call": what, "detail": detail, "mode": mode, "module": r[2]},
                          {"case": {"steps": [what]}, "files": {"k.scm": r[2]}, "env": env})
    shutil.rmtree(WORK, ignore_errors=True)
    cov = {"evaluations": n + n_rec + n_con, "distinct_nontrivial": len(cases) + len(rc),
           "rule": "module graphs {single, chain, fan-in, diamond, chain of 3} x per-module profiles (x, y in {absent, private, provided, contract/out}) x edge modifiers "
                   "{plain, only-in, only-in with renaming, prefix-in, prefix-in(only-in), only-in naming a private identifier} x main-program sequences (diamond: every "
                   "ordered sequence of <= 3 of 4 requiring programs, plus repeats) on one engine; every identifier of the candidate universe probed after every program; "
                   "markers printed by module bodies counted over the history; %d failure-and-correction histories; contract grid: exported functions of arity 0..4 with a different "
                   "predicate per domain position called with every argument tuple over one value per predicate (from outside: checked; from inside the module: unchecked), "
                   "range contracts, through plain / prefixed / re-exporting requires; both module-inlining settings" % len(rc),
           "samples": [json.dumps(ser(cases[0])), json.dumps(ser(cases[len(cases) // 2])), json.dumps(ser(cases[-1]))], "exhaustive": True,
           "graphs": len(cases), "recovery_histories": len(rc), "contract_calls": n_con}
    return rep.finish("exploration", cov, assumptions=["two imports of one spelling at top level: the later require wins (REPL redefinition semantics)",
                                                        "a module body that failed part-way may be evaluated again after the file is corrected"])


if __name__ == "__main__":
    sys.exit(main())
