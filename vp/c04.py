"""C04 – the collector never reclaims or overwrites reachable mutable storage.
Programs from a root-location grammar (the only reference to a box / mutable vector / mutable struct / assigned captured variable
lives in one particular kind of place while other code allocates) x collection schedules (none, a forced full collection at every
single allocation ordinal, at every allocation, plus explicit (#%gc-collect) requests). Oracle: the sentinel values read back are
the ones stored, identical to the run without forced collections, and no user-level access ever touches a reclaimed slot."""
import sys, json
from . import common

P = "C04"
PRE = ("(struct Cell (v) #:mutable) "
       "(define (churn) (let loop ((i 0) (acc '())) (if (= i 3) (length acc) (loop (+ i 1) (cons (box i) acc))))) "
       "(define (churnv) (let ((v (vector 1 2))) (vector-set! v 0 (vector 3)) (vector-length v)))")

# mutable object kinds: (make expr with {x}, read expr with {o}, write expr with {o} {x})
KINDS = [
    ("box", "(box {x})", "(unbox {o})", "(set-box! {o} {x})"),
    ("mvec", "(vector {x} 0)", "(vector-ref {o} 0)", "(vector-set! {o} 0 {x})"),
    ("struct", "(Cell {x})", "(Cell-v {o})", "(set-Cell-v! {o} {x})"),
    # an EMPTY mutable vector (kept alive next to the sentinel): nothing inside it has to be marked, but the vector itself has to be
    ("empty-mvec", "(vector (vector) {x})", "(+ (vector-length (vector-ref {o} 0)) (vector-ref {o} 1))", "(vector-set! {o} 1 {x})"),
    ("nested", "(box (vector (Cell {x})))", "(Cell-v (vector-ref (unbox {o}) 0))", "(set-Cell-v! (vector-ref (unbox {o}) 0) {x})"),
]

# root locations: program templates; {MK:n} make with sentinel n, {RD:o} read, {WR:o:n} write. Expected value given.
LOCS = [
    ("let-temp", ["(let ((b {MK:41})) (churn) (churnv) {RD:b})"], "(i 41)"),
    ("let-temp-written", ["(let ((b {MK:41})) (churn) {WR:b:42} (churnv) {RD:b})"], "(i 42)"),
    ("pending-arg", ["(let ((r (list {MK:41} (churn) (churnv)))) {RD:(car r)})"], "(i 41)"),
    ("pending-arg-nested", ["(define (three a b c) (list a b c))", "(let ((r (three {MK:41} (list (churn)) (three (churnv) {MK:43} (churn))))) (list {RD:(car r)} {RD:(car (cdr (car (cdr (cdr r)))))}))"], "(lst (i 41) (i 43))"),
    ("closure-stack", ["(let ((f (let ((b {MK:41})) (lambda () {RD:b})))) (churn) (churnv) (f))"], "(i 41)"),
    ("closure-global", ["(define f (let ((b {MK:41})) (lambda () {RD:b})))", "(churn)", "(churnv)", "(f)"], "(i 41)"),
    ("closure-nested", ["(define f (let ((b {MK:41})) (let ((g (lambda () {RD:b}))) (lambda () (g)))))", "(churn)", "(f)"], "(i 41)"),
    ("assigned-capture", ["(define (mk) (let ((n 40)) (lambda () (set! n (+ n 1)) (churn) n)))", "(define c (mk))", "(c)", "(churnv)", "(c)"], "(i 42)"),
    ("assigned-capture-shared", ["(define (mk) (let ((n 40)) (list (lambda () (set! n (+ n 1))) (lambda () n))))", "(define p (mk))", "((car p))", "(churn)", "(churnv)", "((car (cdr p)))"], "(i 41)"),
    ("continuation", ["(let ((b {MK:41})) (let ((r (call/cc (lambda (c) c)))) (churn) (churnv) (if (procedure? r) (r 5) {RD:b})))"], "(i 41)"),
    ("continuation-stored", ["(define k #f)", "(define (g) (let ((b {MK:41})) (let ((r (call/cc (lambda (c) (set! k c) 0)))) (churn) (if (= r 0) (k 1) {RD:b}))))", "(g)"], "(i 41)"),
    ("handler-closure", ["(let ((b {MK:41})) (with-handler (lambda (e) (churn) {RD:b}) (churnv) (error \"x\")))"], "(i 41)"),
    ("error-in-flight", ["(with-handler (lambda (e) (churn) (churnv) 'handled) (let ((b {MK:41})) (churn) (car {RD:b})))"], "(sym \"handled\")"),
    ("global", ["(define g {MK:41})", "(churn)", "(churnv)", "{RD:g}"], "(i 41)"),
    ("global-redefined-old-kept", ["(define g {MK:41})", "(define (old) {RD:g})", "(define g {MK:43})", "(churn)", "(churnv)", "(list (old) {RD:g})"], "(lst (i 41) (i 43))"),
    ("in-list", ["(define l (list 1 {MK:41} 2))", "(churn)", "(churnv)", "{RD:(car (cdr l))}"], "(i 41)"),
    ("in-mvector", ["(define v (vector 1 {MK:41}))", "(churn)", "(churnv)", "{RD:(vector-ref v 1)}"], "(i 41)"),
    ("in-ivector", ["(define v (vector-immutable {MK:41}))", "(churn)", "(churnv)", "{RD:(vector-ref v 0)}"], "(i 41)"),
    ("in-hash-value", ["(define h (hash 'k {MK:41}))", "(churn)", "(churnv)", "{RD:(hash-ref h 'k)}"], "(i 41)"),
    ("in-hashset-of-list", ["(define h (hash 'k (list {MK:41})))", "(churn)", "{RD:(car (hash-ref h 'k))}"], "(i 41)"),
    ("in-struct", ["(struct Im (f))", "(define s (Im {MK:41}))", "(churn)", "(churnv)", "{RD:(Im-f s)}"], "(i 41)"),
    ("in-hash-key", ["(define h (hash {MK:41} 'v))", "(churn)", "(churnv)", "{RD:(car (hash-keys->list h))}"], "(i 41)"),
    ("in-hashset-member", ["(define h (hashset {MK:41}))", "(churn)", "(churnv)", "{RD:(car (hashset->list h))}"], "(i 41)"),
    ("in-hash-key-nested", ["(define h (hash 'outer (hash (list {MK:41}) 'v)))", "(churn)", "(churnv)", "{RD:(car (car (hash-keys->list (hash-ref h 'outer))))}"], "(i 41)"),
    ("in-list-in-vector-in-box", ["(define bb (box (vector (list 0 {MK:41}))))", "(churn)", "(churnv)", "{RD:(car (cdr (vector-ref (unbox bb) 0)))}"], "(i 41)"),
    ("tls-main", ["(define t (make-tls 0))", "(set-tls! t {MK:41})", "(churn)", "(churnv)", "(#%gc-collect)", "{RD:(get-tls t)}"], "(i 41)"),
    ("tls-other-thread", ["(define t (make-tls 0))", "(define c1 (channels/new))", "(define c2 (channels/new))",
                          "(define th (spawn-native-thread (lambda () (set-tls! t {MK:41}) (channel/send (channels-sender c1) 'made) (channel/recv (channels-receiver c2)) {RD:(get-tls t)})))",
                          "(channel/recv (channels-receiver c1))", "(churn)", "(churnv)", "(#%gc-collect)", "(churn)", "(channel/send (channels-sender c2) 'go)", "(thread-join! th)"], "(i 41)"),
    ("exception-handler-installed", ["(call-with-exception-handler (let ((b {MK:41})) (lambda (e) {RD:b})) (lambda () (churn) (churnv) (#%gc-collect) (churn) (car 1)))"], "(i 41)"),
    ("in-box", ["(define bb (box {MK:41}))", "(churn)", "(churnv)", "{RD:(unbox bb)}"], "(i 41)"),
    ("in-mstruct-cycle", ["(define a (Cell 0))", "(define bx {MK:41})", "(set-Cell-v! a (list a bx))", "(set! bx #f)", "(churn)", "(churnv)", "{RD:(car (cdr (Cell-v a)))}"], "(i 41)"),
    ("map-callback", ["(map (lambda (i) (let ((b {MK:41})) (churn) (churnv) (+ i {RD:b}))) (list 1 2 3))"], "(lst (i 42) (i 43) (i 44))"),
    ("map-accumulated", ["(let ((bs (map (lambda (i) (churn) {MK:41}) (list 1 2 3)))) (churnv) (map (lambda (b) {RD:b}) bs))"], "(lst (i 41) (i 41) (i 41))"),
    ("foldl-accumulator", ["(let ((bs (foldl (lambda (x acc) (churn) (cons {MK:41} acc)) '() (list 1 2 3)))) (churnv) (map (lambda (b) {RD:b}) bs))"], "(lst (i 41) (i 41) (i 41))"),
    ("transducer", ["(let ((bs (transduce (list 1 2 3) (mapping (lambda (x) (churn) {MK:41})) (into-list)))) (churnv) (map (lambda (b) {RD:b}) bs))"], "(lst (i 41) (i 41) (i 41))"),
    ("sort-comparator", ["(let ((b {MK:41})) (let ((s (sort (list 3 1 2) (lambda (x y) (churn) (< (+ x {RD:b}) (+ y {RD:b})))))) (churnv) (list s {RD:b})))"], "(lst (lst (i 1) (i 2) (i 3)) (i 41))"),
    ("filter-callback", ["(let ((b {MK:41})) (filter (lambda (x) (churn) (< x {RD:b})) (list 40 50)))"], "(lst (i 40))"),
    ("apply-args", ["(define (f a b c) (churn) (churnv) {RD:b})", "(apply f (list 1 {MK:41} 3))"], "(i 41)"),
    ("rest-args", ["(define (f . r) (churn) (churnv) {RD:(car (cdr r))})", "(f 1 {MK:41} 3)"], "(i 41)"),
    ("loop-carried", ["(let loop ((i 0) (b {MK:41})) (churn) (if (< i 3) (loop (+ i 1) b) {RD:b}))"], "(i 41)"),
    ("loop-replaced", ["(let loop ((i 0) (b {MK:40})) (churn) (if (< i 3) (loop (+ i 1) (let ((n {MK:41})) n)) {RD:b}))"], "(i 41)"),
    ("deep-recursion-frames", ["(define (rec n) (let ((b {MK:41})) (if (= n 0) (begin (churn) (churnv) {RD:b}) (+ 0 (rec (- n 1)) (- {RD:b} 41)))))", "(rec 4)"], "(i 41)"),
    ("explicit-collect", ["(let ((b {MK:41})) (#%gc-collect) (churn) (#%gc-collect) {RD:b})"], "(i 41)"),
    ("explicit-collect-in-arg", ["(let ((r (list {MK:41} (#%gc-collect) {MK:43} (#%gc-collect)))) (list {RD:(car r)} {RD:(car (cdr (cdr r)))}))"], "(lst (i 41) (i 43))"),
    ("other-thread-holds", ["(define c1 (channels/new))", "(define c2 (channels/new))",
                            "(define t (spawn-native-thread (lambda () (let ((b {MK:41})) (channel/send (channels-sender c1) 'made) (channel/recv (channels-receiver c2)) {RD:b}))))",
                            "(channel/recv (channels-receiver c1))", "(churn)", "(churnv)", "(#%gc-collect)", "(channel/send (channels-sender c2) 'go)", "(thread-join! t)"], "(i 41)"),
    ("weak-box-strongly-held", ["(define b {MK:41})", "(define w (make-weak-box b))", "(churn)", "(#%gc-collect)", "{RD:(weak-box-value w)}"], "(i 41)"),
]


def subst(t, kind):
    import re
    name, mk, rd, wr = kind
    # innermost-first so that nested placeholders work
    for _ in range(4):
        t = re.sub(r"\{MK:([^{}]*)\}", lambda m: mk.replace("{x}", m.group(1)), t)
        t = re.sub(r"\{WR:([^{}:]*):([^{}]*)\}", lambda m: wr.replace("{o}", m.group(1)).replace("{x}", m.group(2)), t)
        t = re.sub(r"\{RD:([^{}]*)\}", lambda m: rd.replace("{o}", m.group(1)), t)
    return t


def programs():
    out = []
    for lname, steps, want in LOCS:
        for kind in KINDS:
            if lname.startswith("assigned-capture") and kind[0] != "box":
                continue
            if lname.startswith("weak-box") and kind[0] not in ("box",):
                continue  # weak boxes on values that are not heap slots are C19's subject
            out.append(("%s/%s" % (lname, kind[0]), [PRE] + [subst(s, kind) for s in steps], want))
    return out


def run(prog, gc, env):
    e = dict(env or {})
    if gc:
        e["STEEL_VERIF_GC"] = gc
    steps = [prog[0], {"op": "gcplan", "on": True}] + prog[1:] + [{"op": "counters"}]
    r = common.run_cases([{"id": 0, "env": e, "steps": steps}], env=env, batch=1, timeout_ms=60000)[0]
    if r["exit"] != "normal" or len(r["steps"]) != len(steps):
        return ("CRASH(%s)" % r["exit"], 0, 0, 0)
    last = r["steps"][-2]
    val = last["v"][-1] if last["s"] == "ok" else last["s"].upper() + ": " + last.get("m", "")[:100]
    c = r["steps"][-1]["v"]
    return (val, c[2], c[1], c[0])  # value, allocations, forced collections, freed-slot uses


def work(item):
    env, lst, single = item
    fails, nruns = [], 0
    allocs_seen = 0
    for name, prog, want in lst:
        base = run(prog, None, env)
        nruns += 1
        if base[0] != want:
            fails.append((name, "no forced collection", prog, want, base[0]))
            continue
        A = base[1]
        allocs_seen += A
        scheds = ["every"] + ([str(k) for k in range(1, min(A, 60) + 1)] if single else []) + ([",".join(str(k) for k in range(1, A + 1, 2))] if single else [])
        for sc in scheds:
            got = run(prog, sc, env)
            nruns += 1
            if got[0] != want or got[3] != 0:
                why = "collection at allocation ordinal(s) %s of %d" % (sc, A)
                fails.append((name, why, prog, want, got[0] + (" [use of reclaimed slot]" if got[3] else "")))
                break
    return len(lst), nruns, allocs_seen, fails


def main(argv=None):
    a = common.parse_args(argv)
    if a.replay:
        r = json.load(open(a.replay))
        print(json.dumps(r, indent=1)[:2500])
        common.build()
        rp = r["replay"]
        got = run(rp["prog"], rp.get("gc"), rp.get("env"))
        print("now:", got, "expected:", rp["want"])
        return 1 if got[0] != rp["want"] or got[3] else 0
    common.build()
    rep = common.Reporter(P, a.tier)
    progs = programs()
    envs = [None, {"STEEL_JIT": "false"}]
    items = [(env, ch, True) for env in envs for ch in common.split_round_robin(progs, 16)]
    results = common.pmap(work, items)
    nprog = sum(r[0] for r in results)
    nruns = sum(r[1] for r in results)
    nalloc = sum(r[2] for r in results)
    seen = set()
    korder = {k[0]: i for i, k in enumerate(KINDS)}
    allf = sorted([f for r in results for f in r[3]], key=lambda f: (f[0].split("/")[0], korder.get(f[0].split("/")[1], 9), f[1]))
    for _once in (1,):
        for name, why, prog, want, got in allf:
            loc = name.split("/")[0]
            key = (loc, got.split(":")[0] if got.startswith(("ERR", "CRASH", "PANIC")) else "value")
            if key in seen:
                continue
            seen.add(key)
            import re
            gc = re.search(r"ordinal\(s\) (\S+)", why)
            rep.violation("%s :: %s => want %s got %s" % (name, re.sub(r"ordinal\(s\) \S+ of \d+", "a forced ordinal", why), want, got[:80]),
                          {"location": name, "schedule": why, "program": prog, "want": want, "got": got},
                          {"prog": prog, "gc": gc.group(1) if gc else None, "want": want, "env": None})
    cov = {"evaluations": nruns, "distinct_nontrivial": nprog,
           "rule": "%d root locations x 4 mutable object kinds (box, mutable vector, mutable struct, nested) as programs whose expected sentinel values are "
                   "known; each program runs with no forced collection, with a forced full collection at EVERY allocation, at EACH SINGLE allocation "
                   "ordinal 1..A (A = allocations of the program, measured) and at every odd ordinal; JIT on and off; forced collections use exactly "
                   "the roots the allocation site passes and do not grow the heap; every user-level slot access checks the slot is live" % len(LOCS),
           "samples": [progs[3][1][1:], progs[40][1][1:], progs[-1][1][1:]], "exhaustive": True, "programs": len(progs), "configs": 2,
           "allocation_points_covered": nalloc, "locations": [l[0] for l in LOCS]}
    return rep.finish("exploration", cov, assumptions=[
        "hook H4: forced collections run the real mark phase with the call site's roots, skip heap growth/compaction",
        "host-rooted values and TLS roots are not in the grammar yet"])


if __name__ == "__main__":
    sys.exit(main())
