"""Generates /verif/MANIFEST.json from the table below (python3 -m vp.manifest)."""
import json, os, subprocess
from .common import VERIF

# id -> (level category, technique, level text, level note, design ref)
CHECKS = {
    "C10": ("exploration",
            "small-scope exhaustive enumeration: complete operand grid x operators x syntactic shapes x {JIT on/off} on the real engine, compared with an exact reference (Python int/Fraction/IEEE float)",
            "Every operator of the property is run on every tuple of a boundary-value operand alphabet (fixnum/bignum/ratio32/bigratio/double edges) "
            "through every syntactic shape that selects a different arithmetic code path, in forked children of the real engine; results must equal the exact "
            "reference in value and representation class. Exhaustive over the stated grid, nothing sampled.",
            "Trusted: the Python reference (ref_num.py) and the canonical encoder hook. Operands outside the alphabet are not covered; "
            "inexact n-ary folds, float formatting and (/ x 0) with inexact x are left unspecified.",
            "DESIGN.md §3 C10"),
    "C15": ("model_checking",
            "stateless depth-first exploration of every schedule with at most 2 preemptions of multi-threaded drivers on the real VM under a controlled scheduler (hook H7 gates; one scheduling point per gate; fresh forked engine per schedule), with in-scheduler scan-window oracle and a sequential-consistency reference for results",
            "Gates: every instruction dispatch, every step of entering and leaving a safepoint (publish, finished, park, retract, left), every step of stopping, waiting for, scanning and "
            "resuming the world, thread start / exit / spawn. 16 two-thread, 5 three-thread, 5 phased (threads that exited before the others were spawned; a channel orders reader after writer) and 6 in-flight drivers (a freshly allocated value held only by an operation in progress while another thread collects) built from {assign g, read g, full collection, allocate, primitive call, loop, define, send, recv}. "
            "Oracle (i): no thread passes an instruction-dispatch or safepoint-left gate while another thread is between scan-begin and scan-end on its state; (ii) the values read by all "
            "threads and the final g are the result of some interleaving of the script-level reads and writes; (iii) no access to a reclaimed heap slot (counter of hook H4). Preemption bound 2 (three threads: 1; thorough: 2). Blocking in native code "
            "is recognised from the kernel state of the thread (sleeping for 5 consecutive 1 ms polls); woken threads are waited for before the next choice so enabled sets do not depend "
            "on timing; replays that diverge are counted, not judged.",
            "Sequentially consistent interleavings at gate granularity only: reorderings of the relaxed flag accesses are not explored. More than 3 threads, longer drivers and higher bounds "
            "are outside; thread teardown after the last gate runs uncontrolled (small run-to-run variation of the schedule count for drivers with collections).",
            "DESIGN.md §3 C15"),
    "C16": ("model_checking",
            "the same controlled scheduler and stateless depth-first exploration as C15 (preemption bound 2; three threads 1) over drivers in which world-stopping operations meet each other and blocked, exiting and starting threads; progress oracle in the scheduler (deadlock / livelock / hang) and allowed-result sets for joins, channels and mutexes",
            "21 drivers x {native code on, off}: two / three threads assigning or defining globals and collecting at the same time; a thread blocked in thread-join!, channel/recv (directly and "
            "from inside map), lock-acquire! or a sleep while another stops the world; a thread exiting or being spawned (also by a spawned thread) during a collection; producers and a consumer on "
            "a channel with collections in between; joining twice; blocking primitives in tail position of natively compiled functions. Plus a free-running grid (code that passes no gate is atomic under the scheduler): a stop-the-world request against a thread executing each of the 37 C17 program shapes x {native code on, off} x {separate unit, same unit, module}. Oracle: the evaluation completes (no runnable thread for 1.5 s with unfinished threads = deadlock; only spinning threads "
            "runnable for 1.5 s = livelock; 20 s = hang) and its value is allowed by the script's logic (every sent value received once and in order per sender, join result once, second join "
            "an error value, mutex-protected counter exact).",
            "Same bounds as C15. 4..8 threads are outside the exploration.",
            "DESIGN.md §3 C16"),
    "C17": ("exploration",
            "exhaustive enumeration of interrupt arrival points at gate granularity on the real engine: program shape x execution tier x k-th gate (hook H7) at which the request is issued from inside the hook callback",
            "37 long-running program shapes (tail / mutual / named-let / do loops, recursion, loops driven by map, foldl, for-each, filter, sort, transduce callbacks, endless loops "
            "inside such callbacks, in an error handler, in dynamic-wind before/body/after thunks, continuation re-entry and generator loops, apply loops, primitive-calling, "
            "allocating (also with a forced full collection at every allocation), global-assigning, global-defining, collecting and sleeping loops) x {native code generation on, off}; "
            "the bounded variant of each shape runs first so hot code is compiled; then the request is issued at the k-th gate the engine thread passes, for EVERY k in 1..150 "
            "(thorough 1500), whatever gate that is (dispatch, safepoint publish / finished / retract / left, stop / scan / resume of the world); one delayed request from a "
            "watchdog thread per shape, and one request that arrives 8 ms into an evaluation whose unit starts with 600 definitions (still being compiled). Oracle: run returns the interrupt error within 64 further instruction dispatches (4 s wall clock = hang); after resume() a probe and the "
            "bounded variant answer correctly and both VM stacks are empty.",
            "Arrival between two gates is equivalent to arrival at the later gate (the flag is only read at gates). Primitives that run long without script steps are outside the property's bound.",
            "DESIGN.md §3 C17"),
    "C19": ("model_checking",
            "explicit-state BFS over heap-graph event histories executed on the real engine (state = canonical form of a Python twin of the heap graph; every (state, enabled event) pair executed by replaying the state's shortest history on a fresh engine), plus exhaustive pattern x thread-count grid of bounded-live-set loops with heap statistics sampled after forced collections",
            "Events: allocate box / mutable vector / mutable struct into one of 3 global roots (set! or re-define), link, self-link, unlink, drop, capture in a closure / in a "
            "continuation and drop those, self-capturing closure garbage, garbage made by a finished thread, weak box, full collection; at most 4 objects alive or pending. "
            "After every event, for both free lists (hook H6): alloc_count == number of free slots, the slot under the cursor is free; after every collection: slots in use == "
            "baseline + cost of exactly the twin's reachable objects (leak and premature reclamation are distinguished); a weak box with unreachable target answers #f. "
            "Depth 4 (thorough 5); second BFS with a forced full collection at every allocation (hook H4). Boundedness: 16 garbage patterns (acyclic, cycles of length 1..4 "
            "through each container kind and mixed, closure cycles, dead continuation, shadowed global, bounded queue) x {1, 2} threads, full collection and statistics "
            "sample every 500 iterations: slots in use after a collection constant, accounting invariant at every sample, peak slot count of successive growth/compaction "
            "cycles not rising; host roots: every history of <= 6 (7) events over {make a cyclic object in one of 2 globals, the host roots it with as_rooted, the script drops it, the host releases the root, full collection} plus a drain, slots in use after every collection == baseline + objects reachable from globals and held roots; thorough adds the natural policy (no explicit collections): the peak slot count after 6*10^7 iterations must not exceed the peak after 3*10^7.",
            "Slot cost per kind is calibrated once on the initial state. With a second running thread only a trend can be judged. Weak boxes with reachable targets are C04's subject.",
            "DESIGN.md §3 C19"),
    "C14": ("exploration",
            "small-scope exhaustive enumeration of module graphs x export profiles x require modifiers x orders of requiring programs on one real engine, against a Python visibility/instantiation model; exhaustive contract-boundary argument grid",
            "Graphs {single, chain, fan-in, diamond, chain of 3} over generated files; every module has a private helper of the same spelling, x / y in {absent, private, "
            "provided, contract/out} and a provided aggregate of everything it imported; every edge carries one of {plain, only-in, only-in with renaming, prefix-in, "
            "prefix-in(only-in) with and without renaming, only-in swapping two names, only-in naming a private identifier}; the requires of a program are one compilation unit each or all in one unit; for the diamond every ordered sequence of up to 3 of 4 requiring programs (plus repeats) runs on one "
            "engine. After every program every identifier of the candidate universe (names x prefixes in play) is evaluated in a unit of its own: exactly the model's value, "
            "a contract error or a free-identifier error. Module bodies print a marker: exactly one per instantiated module over the history. 16 histories in which a "
            "module fails (syntax / free identifier / run-time / arity) and is corrected. Contract grid: arity 0..4, different predicate per position, all argument tuples "
            "over one value per predicate, from outside (checked) and inside (unchecked), range contracts, via plain / prefixed / re-exporting requires. Both "
            "STEEL_MODULE_INLINE settings.",
            "Two imports of one spelling at top level: later require wins. for-syntax requires and macros crossing modules are exercised by C13, cyclic graphs are outside "
            "the property. Graphs beyond 4 files and sequences beyond 3 programs are outside the bound.",
            "DESIGN.md §3 C14"),
    "C13": ("exploration",
            "small-scope exhaustive enumeration of syntax-rules definitions and uses on the real expander: (pattern x template x argument tuple) grid against a reference matcher, and a metamorphic re-spelling relation for hygiene over binder kinds x use sites x spellings x definition sites",
            "33 argument patterns (literals, one and two ellipsis levels, compound patterns under an ellipsis, patterns after an ellipsis, dotted tails, zero matches) x "
            "templates derived from each pattern's variables x every argument tuple up to length 3 over a data pool whose symbols include the pattern-variable "
            "spellings; templates are quoted so the expected datum comes from vp/ref_macro.py; 150 definitions and uses share one engine so that state kept "
            "between expansions is exercised, and a mismatch is re-run alone and behind each single earlier case. Hygiene: every program is run with colliding "
            "and with non-colliding spellings of template binders / use-site binders and must give the same value (8 binder kinds x 7 use sites x 5 spellings x "
            "{same, earlier} unit; 8 free identifiers x 5 shadowing forms; free identifiers inside ellipsis sub-templates x 4 shadowing forms; 3 literals spelled like a use-site binding x 9 use sites with up to 3 scopes in between; nested, recursive, macro-defining macros; module macros incl. a three-file chain "
            "with contract/out).",
            "The R7RS 'x ... ...' template form and (... ...) escapes are not implemented by Steel and are outside the grid; identifiers with the reserved ## prefix "
            "are not used as user spellings. Patterns deeper than two ellipsis levels and argument tuples longer than 3 are outside the bound.",
            "DESIGN.md §3 C13"),
    "C12": ("exploration",
            "small-scope exhaustive enumeration of reader inputs (all strings/token sequences up to a length) and of data/programs for write-read and parse-print-parse round trips, on the real parser and engine; differential read-after-read histories",
            "Every string up to length 5 (thorough 6) over a 26-character alphabet chosen from the lexer's branches and every token sequence up to length 3 (4) "
            "is parsed by the real parser inside a forked child: no panic, every span inside the text. Every datum from a leaf alphabet covering each lexer branch "
            "under 12 compound shapes is written and read back inside the engine; every program of a syntax zoo plus all small core terms is printed and re-parsed. "
            "Pairs of reads on different ports are compared with the second read alone (non-initial states).",
            "Trusted: the harness' span scanner over Debug output, equal? for the write/read oracle (itself checked by C11). Longer inputs are outside the bound.",
            "DESIGN.md §3 C12"),
    "C11": ("model_checking",
            "explicit-state BFS over collection operation sequences executed on the real engine against Python models (state = model value), plus exhaustive pairwise equal?/hash checks over a generated value universe with explicit sharing",
            "(a) Every ordered pair of a universe of ~2000 (thorough ~4000) values, in which the same structural value exists as a tree, as a DAG and as the "
            "identical object, is compared both ways on the real engine; equal? must coincide with structural equality of Python twins, and equal immutable "
            "values must be interchangeable as hash keys and set members; sequences of comparisons on fresh temporaries must be history independent. "
            "(b) Breadth-first search to depth 3 (4) over every operation of lists, immutable vectors, mutable vectors (vector-set!, fill with ranges, push, every vector-copy! (at, start, end) from another vector, overlapping self copies, swap), hash maps, hash sets and strings with boundary indices; "
            "each transition runs on the implementation (uniquely owned operand and operand that stays referenced) and must equal the model, errors included.",
            "Trusted: the Python twins/models and the encoder hook. Immutable-vs-mutable vector equality, NaN and mutable keys are left unspecified.",
            "DESIGN.md §3 C11"),
    "C07": ("exploration",
            "small-scope exhaustive enumeration of inputs: all token sequences / byte strings up to a length through the full pipeline, every pure native built-in x every argument tuple of arity 0..2 over a value alphabet (arity 3 and 4 over reduced alphabets), and all histories of good/failing evaluations up to a depth, on the real engine in forked children",
            "Every token sequence up to length 3 (thorough 4 over a reduced menu) and every short byte string is evaluated; every pure native built-in "
            "(~390, effectful ones excluded by name) is called with all ~1980 argument tuples of length 0..2 over one value per kind plus boundary magnitudes, every 3-tuple over 7 and every 4-tuple over 4 values, with a "
            "progress mark before each call so that a panic, abort, hang or allocation failure is attributed to a single call; every history of up to 3 (4) "
            "events from 12 good/failing event kinds is replayed with a probe program, stack-depth and earlier-definition checks after every step.",
            "Trusted: the deny-list of effectful built-ins, the 6 GB address-space cap (allocation failure = host crash), catch_unwind attribution with JIT off. "
            "Calls with five or more arguments and longer texts are outside the bound; narrowing of one built-in stops after 3 hangs, 40 failing calls or 25 s (listed in the evidence).",
            "DESIGN.md §3 C07"),
    "C01": ("exploration",
            "small-scope exhaustive enumeration of programs (all closed core terms up to a size, every small term in every compiler position context, skeleton families with enumerated holes, evaluation histories) run on the real engine and compared step by step with a reference CEK evaluator",
            "All closed core terms up to size 4 (thorough 5: 153k), every term up to size 2 (3) in 13 position contexts, ~2.7k skeleton programs (call-site x "
            "parameter shapes incl. variadic self tail calls, counters, shadowing of 26 specialised built-in names as parameter/local/global at right and wrong "
            "arity, dead code, let depth x arguments under tail calls, begin/define interleavings, higher-order procedures, JIT operand grid, histories, an "
            "operand-count family (calls with 0..12 arguments in every call shape, arithmetic / comparison with 0..6 operands), the multi-step programs again as "
            "one compilation unit, and ~2.1k of them again with their definitions placed in a required file module) are evaluated and compared with vp/ref_scheme.py on status, value and output of every step.",
            "Trusted: the reference evaluator (written from R7RS + Steel's documented deviations) and the encoder hook. Programs whose outcome depends on operand "
            "evaluation order, on an unspecified value, or on a never-evaluated free identifier are skipped (counted).",
            "DESIGN.md §3 C01"),
    "C02": ("exploration",
            "differential small-scope enumeration: the C01 program families (incl. evaluation histories) under every configuration of the five switches, one engine process per configuration, all configurations must agree step by step",
            "Every program of the C01 families is evaluated under default + each switch flipped alone (thorough: all 32 combinations of STEEL_JIT, STEEL_INLINE, "
            "STEEL_INLINE_RECURSIVE, STEEL_CLOSURE_LIFTING, STEEL_MODULE_INLINE); per step the (status, value, output) must be identical. No reference needed.",
            "Trusted: determinism of the programs. Decides agreement for the enumerated programs only.",
            "DESIGN.md §3 C02"),
    "C06": ("model_checking",
            "bounded exhaustive exploration of evaluation histories on the real engine (every history of a structured event alphabet, replayed from a pristine engine in a forked child), with a binding-cell reference model evaluated in lock step after every event",
            "Every history built from: base definitions; up to 2 (thorough 3) setup events from 16 observer kinds (readers, callers, stored closures, factory "
            "closures, native-valued globals) and 8 change kinds (redefine / set!); an optional failing unit (4 kinds); an optional slot-recycling phase (101/201/401 "
            "shadowing units past the recycler threshold, then 320 fresh definitions that reuse every freed slot); an optional late change. After every event "
            "all observers are evaluated on the implementation and compared with the binding-cell semantics of vp/ref_scheme.py.",
            "Trusted: the reference's binding-cell model (a unit's references resolve to the cells in force after its own defines; a unit rejected at compile time "
            "changes nothing). Longer histories and more names are outside the bound.",
            "DESIGN.md §3 C06"),
    "C03": ("model_checking",
            "explicit-state BFS over functional-update sequences per collection kind (state = model value) with every transition executed on the real engine under every holding mode of the operand, against Python models",
            "For lists, immutable vectors, hash maps, hash sets and strings: every model state reachable by 1 (thorough 2) updates x every update of the alphabet x "
            "24 ways the operand is held at the update site (global, live local, last use with a live alias, last use in one branch, loop-carried keeping all "
            "versions, closure capture, inside list/vector/box/hash, rest argument, map callback, continuation, cloned by / moved to another thread, uniquely referenced local / temporary / argument = the in-place path itself, fifth or sixth parameter read twice), plus binary "
            "operations over all pairs of states under 7 ownership patterns and with one object as both operands; JIT on and off. The result must equal the "
            "model update of a fresh copy and every other holder must still see the old value.",
            "Trusted: the Python models (vp/c11_coll.py). Thread hand-offs are sequenced; interleavings of the reference-count operations are C05's subject.",
            "DESIGN.md §3 C03"),
    "C04": ("exploration",
            "exhaustive enumeration of root locations x collection schedules: every program of a root-location grammar is run with a forced full collection at every single allocation ordinal, at all of them, and at explicit collection requests (fault-injection style enumeration of collection points on the real collector)",
            "~40 root locations (pending argument, let temporary, closures on the stack / in globals / nested, assigned captured variables, continuations, handlers, "
            "globals incl. shadowed ones, containers, cycles, callbacks of native higher-order procedures, transducers, sort comparators, apply/rest arguments, loop "
            "variables, deep recursion frames, another thread's stack, weak boxes) x 5 mutable object kinds (box, vector, struct, nested, empty vector); for a program with A allocations: no forced collection, "
            "forced at each ordinal 1..A, at every odd ordinal, at every allocation; JIT on/off. The sentinel values must read back unchanged and no access may touch a reclaimed slot.",
            "Trusted: hook H4 (forced collections use the call site's real roots and skip heap growth); host-rooted values and TLS are not in the grammar yet.",
            "DESIGN.md §3 C04"),
    "C09": ("exploration",
            "exhaustive enumeration of tail-loop shapes (call kind x tail context x parameter list x extras) on the real engine with a per-iteration stack-depth invariant, an iteration-count ladder for memory, and a depth ladder for non-tail recursion",
            "Every loop shape of the grammar (7 call kinds x 16 tail contexts x 4 parameter lists x extras, plus special shapes: do, named let, while, CPS, handler tails, "
            "closure loops) runs 1500 (thorough 20000) iterations with a probe at every call site: after the first 8 visits of a site the (operand stack, frame stack, "
            "native depth) triple may never exceed the early maximum; the loop result equals the closed form; 9 probe-free shapes are run at 10^3 and 10^6 (10^7) "
            "iterations and compared on peak RSS; non-tail recursion at depth 10^4..10^6 must end with a value or an error value. JIT on and off.",
            "Trusted: hook H5 (#%verif-stack-depth). Iteration counts between the rungs rely on the per-iteration invariant.",
            "DESIGN.md §3 C09"),
    "C05": ("model_checking",
            "explicit-state BFS over operation histories plus exhaustive enumeration of all gate interleavings of every concurrent operation pair from every reachable state, on the real steel-rc code running on real OS threads under a controlled scheduler (stateless DFS)",
            "Level 1: breadth-first search to the fixpoint of the state key (owner, owner-local count, shared counter, merged/queued flags, handles per thread, "
            "queue membership, registered/exited threads) over 11 operation kinds on 2 and 3 threads, each state reached by replaying its history on a fresh object; "
            "quiescence (drop all, merge, exit) is checked from every state. Level 2: from every level-1 state every pair of operations on distinct threads runs "
            "concurrently with a gate before every shared access and all interleavings are enumerated (no preemption bound). Ghost oracle: at most one destruction and "
            "never under a live handle, intact contents, exclusive access / unwrap only with one handle, no touch of a quarantined box, no leak at quiescence.",
            "Trusted: hook H1 gates cover every access to state shared between threads (thread_id cell, shared word, queue maps); sequential consistency at gate "
            "granularity; counter drift bounded; quick explores the 3-thread level 2 from every third state.",
            "DESIGN.md §3 C05"),
    "C08": ("exploration",
            "small-scope exhaustive enumeration of control programs (capture site x use x dynamic-wind nesting x error placement x handler nesting) run on the real engine under three configurations and compared with a CEK reference machine that has first-class re-entrant continuations and the R7RS wind list",
            "Every program of the grammar: escapes (9 uses incl. apply / tail / nested) from inside 0..2 winds to outside 0..2 winds with distinct and shared thunks; "
            "re-entry of an extent from outside 1..3 times at 5 capture sites; sibling extents; re-entry with pending arguments and inside map; generators; errors "
            "in body / before / after / handler under nested winds and nested handlers; handler-continuation interplay. Trace, value and ok/err must equal the "
            "reference under JIT on, JIT off and with a forced full collection at every allocation (continuations as GC roots).",
            "Trusted: vp/ref_scheme.py. Continuations are delimited per top-level form, so each program is one form; reset/shift is not in the reference yet.",
            "DESIGN.md §3 C08"),
    "C20": ("exploration",
            "complete enumeration of finite host-boundary grids on the Rust side (conversion types x boundary values, function signatures x argument tuples x call shapes, arity 0..16 argument routing, container element tuples, stash locations x late uses of a lent reference, borrow histories of derived references) against Rust's own TryFrom semantics",
            "~100k checks: every integer width with its own extremes and the neighbours just outside in both directions (script->host through a registered function "
            "whose body counts its entries, host->script->host); floats incl. signed zero/NaN/infinities/subnormals; the other convertible kinds; 4 signatures x every "
            "argument tuple of length 0..arity+1 over 9 values, directly and through apply (accepted and entered exactly when arity and kinds match); 47 host functions of arity 0..16 (plain, &self, &mut self) with the parameter vector seen by the host compared position by position; Vec<u8|i64|String> parameters x every element tuple of length 0..3 over 6 values x {list, immutable vector, mutable vector} and Engine::extract; every history of <= 5 operations (derive a reference from the lent object through two registered shapes into two slots, release, mutate the parent) against a borrow model (19.6k histories); a reference lent "
            "by run_with_reference stashed in 12 kinds of places must fail on every later use, leave the host object untouched and allow a second lend.",
            "Trusted: the expectations (Rust's TryFrom). Registered Custom structs by value and tuples beyond pairs are not in the grid yet; derived references through &SELF receivers are not registered.",
            "DESIGN.md §3 C20"),
    "C18": ("exploration",
            "complete enumeration of a finite shape x operation x size-ladder grid, every cell executed in a forked child of the real engine with the default native stack",
            "13 chain shapes (through every container kind, closures, mixed), 5 wide shapes and 6 cycle shapes x 11 operations (build, drop, equal? with a twin / itself, "
            "hash key, print, display to a port, survive a collection, be collected, round trip through another thread, run inside a thread) x depth 10^3, 10^4, 10^5 "
            "(thorough 10^6; widths x10; cycle lengths 1,2,3,10,10^4). A cell must end normally with a value or an error value and the right answer; a signal, abort or "
            "panic is a violation at the smallest failing rung; time-outs are violations for cycles (termination) and inconclusive otherwise.",
            "Trusted: the ladder stands for 'any depth' (a cell that passes 10^5/10^6 with an 8 MiB stack is taken to be depth independent).",
            "DESIGN.md §3 C18"),
}

NOT_YET = {}

ALL = ["C%02d" % i for i in range(1, 21)]


def main():
    repo_commits = subprocess.run(["git", "-C", "/repo", "log", "--format=%h %s"], capture_output=True, text=True).stdout.splitlines()
    hooks = [l.split()[0] for l in repo_commits if l.split(" ", 1)[1].startswith("verif hook")]
    checks = []
    for pid in ALL:
        if pid not in CHECKS:
            continue
        cat, tech, text, note, ref = CHECKS[pid]
        checks.append({
            "property_id": pid,
            "quick_cmd": "./check %s --tier quick" % pid,
            "thorough_cmd": "./check %s --tier thorough" % pid,
            "evidence_file": "/verif/evidence/%s.json" % pid,
            "replay_cmd_template": "./check %s --replay {path}" % pid,
            "engine": "svh",
            "level_claimed": {"category": cat, "text": text, "design_ref": ref},
            "level_note": note,
            "technique": tech,
        })
    na = [{"property_id": p, "reason": NOT_YET.get(p, "check not built yet in this round (planned: see DESIGN.md §3 %s)" % p)}
          for p in ALL if p not in CHECKS]
    m = {
        "version": 1,
        "setup_cmd": "./bin/build.sh",
        "hooks": {
            "guard": "--cfg steel_verif (RUSTFLAGS)",
            "enable": "bin/build.sh builds /verif/harness (path deps on /repo/crates/*) with RUSTFLAGS=\"--cfg steel_verif\" into /verif/target",
            "baseline_off_cmd": "cd /repo && cargo nextest run --workspace --no-fail-fast --tool-config-file pb:/w/lib/nextest.toml --profile pb --test-threads 8 --offline",
            "source_commits": hooks,
            "add_only": True,
        },
        "engines": [{"name": "svh", "path": "/verif/harness", "serves_properties": [c["property_id"] for c in checks],
                     "kind_free_text": "Rust harness around the real steel engine (fork-per-case evaluation server, schedule explorers); enumeration, "
                                       "reference models and verdicts in /verif/vp (Python)"}],
        "checks": checks,
        "not_applicable": na,
        "notes": "Known findings: /verif/known_findings.json. Seeded changes: /verif/seeded/. See DESIGN.md.",
    }
    with open(os.path.join(VERIF, "MANIFEST.json"), "w") as fh:
        json.dump(m, fh, indent=1)
    print("MANIFEST.json: %d checks, %d not_applicable" % (len(checks), len(na)))


if __name__ == "__main__":
    main()
