"""C18 – arbitrarily deep, wide or cyclic values are handled without exhausting the host.
Finite grid: value shapes (deep chains through every container kind, wide flat values, cycles of length 1..10^4 through mutable
containers) x operations (build, drop, equal? with an independent twin / with itself, use as hash key, print to a string, traverse,
send to another thread and back, survive a full collection, become garbage and be collected) x depth ladder 10^3..10^6; every cell in
a forked child of its own with the default main-thread stack, also inside a spawned script thread for the deepest rung.
Oracle: the child exits normally (no signal, no abort, no timeout) with Ok or an error VALUE; equal? answers are correct; printing and
comparing cycles terminate."""
import sys, json
from . import common

P = "C18"
PRE = ("(struct Node (next)) (struct MNode (next) #:mutable) "
       "(define (build f n) (let loop ((i 0) (acc '())) (if (= i n) acc (loop (+ i 1) (f acc i)))))")

# shape: (name, builder lambda text taking (acc i), immutable?, kind)
SHAPES = [
    ("list-car-deep", "(lambda (acc i) (list acc))", True),
    ("list-cdr-long", "(lambda (acc i) (cons i acc))", True),
    ("pair-chain", "(lambda (acc i) (cons acc i))", True),
    ("ivec-deep", "(lambda (acc i) (vector-immutable acc))", True),
    ("mvec-deep", "(lambda (acc i) (vector acc))", False),
    ("hash-value-deep", "(lambda (acc i) (hash 'k acc))", True),
    ("hash-key-deep", "(lambda (acc i) (hash acc 'v))", True),
    ("hashset-deep", "(lambda (acc i) (hashset acc))", True),
    ("struct-deep", "(lambda (acc i) (Node acc))", True),
    ("mstruct-deep", "(lambda (acc i) (MNode acc))", False),
    ("box-deep", "(lambda (acc i) (box acc))", False),
    ("closure-chain", "(lambda (acc i) (lambda () acc))", False),
    # a container and a closure alternate along one path (lazy-list cells whose tail is a thunk capturing the next cell)
    ("struct-closure-chain", "(lambda (acc i) (Node (lambda () acc)))", False),
    ("list-closure-chain", "(lambda (acc i) (list i (lambda () acc)))", False),
    ("vector-closure-chain", "(lambda (acc i) (vector-immutable (lambda () acc)))", False),
    ("mixed-deep", "(lambda (acc i) (if (even? i) (list (vector-immutable acc)) (hash 'k (box acc))))", False),
]
WIDE = [
    ("string-wide", "(make-string {n} #\\a)"),
    ("mvec-wide", "(make-vector {n} 0)"),
    ("list-wide", "(range 0 {n})"),
    ("hash-wide", "(let loop ((i 0) (h (hash))) (if (= i {n}) h (loop (+ i 1) (hash-insert h i i))))"),
    ("bytes-wide", "(make-bytes {n} 1)"),
]
# cycles of length n through mutable containers: returns the entry object
CYCLES = [
    ("box-cycle", "(let* ((first (box 0)) (last (let loop ((i 1) (cur first)) (if (= i {n}) cur (loop (+ i 1) (let ((b (box 0))) (set-box! cur b) b)))))) (set-box! last first) first)"),
    ("mvec-cycle", "(let* ((first (vector 0 'x)) (last (let loop ((i 1) (cur first)) (if (= i {n}) cur (loop (+ i 1) (let ((b (vector 0 'x))) (vector-set! cur 0 b) b)))))) (vector-set! last 0 first) first)"),
    ("mstruct-cycle", "(let* ((first (MNode 0)) (last (let loop ((i 1) (cur first)) (if (= i {n}) cur (loop (+ i 1) (let ((b (MNode 0))) (set-MNode-next! cur b) b)))))) (set-MNode-next! last first) first)"),
    ("closure-box-cycle", "(let ((b (box 0))) (set-box! b (lambda () b)) b)"),
    ("list-in-box-cycle", "(let ((b (box 0))) (set-box! b (list 1 b 2)) b)"),
    ("hash-in-mvec-cycle", "(let ((v (vector 0))) (vector-set! v 0 (hash 'self v)) v)"),
]
# operations: code with {MK} (an expression building the value); expected last value or None (= any value / error value)
OPS = [
    ("build", "(let ((x {MK})) 'built)", "(sym \"built\")"),
    ("drop", "(let ((x {MK})) (set! x #f) (let loop ((i 0)) (if (< i 1000) (begin (box i) (loop (+ i 1))) 'dropped)))", "(sym \"dropped\")"),
    ("equal-twin", "(equal? {MK} {MK})", "#t"),
    ("equal-self", "(let ((x {MK})) (equal? x x))", "#t"),
    ("hash-key", "(let ((h (hash {MK} 1))) (hash-contains? h {MK}))", "#t"),
    ("print", "(let ((s (to-string {MK}))) (string? s))", "#t"),
    ("display-port", "(let ((p (open-output-string))) (display {MK} p) (string? (get-output-string p)))", "#t"),
    ("gc-survive", "(let ((x {MK})) (#%gc-collect) (equal? x x))", "#t"),
    ("gc-garbage", "(begin (let ((x {MK})) 'made) (#%gc-collect) (#%gc-collect) 'collected)", "(sym \"collected\")"),
    ("thread-round-trip", "(let ((x {MK})) (let ((t (spawn-native-thread (lambda () x)))) (let ((y (thread-join! t))) (equal? x y))))", "#t"),
    ("in-thread", "(thread-join! (spawn-native-thread (lambda () (let ((x {MK})) (equal? x x)))))", "#t"),
]
NOT_FOR = {  # (shape-property, op) combinations that are not meaningful
    "mutable": {"hash-key"},
}


def cells(tier):
    depths = [1000, 10000, 100000] + ([1000000] if tier == "thorough" else [])
    out = []
    for name, fn, imm in SHAPES:
        for op, code, want in OPS:
            if not imm and op in ("hash-key",):
                continue
            if "closure-chain" in name and op in ("equal-twin",):
                continue  # closures are compared by identity
            for d in depths:
                out.append(("%s/%s" % (name, op), d, [PRE, code.replace("{MK}", "(build %s %d)" % (fn, d))], want))
    for name, mk in WIDE:
        for op, code, want in OPS:
            if name in ("mvec-wide", "bytes-wide") and op == "hash-key":
                continue
            for d in [x * 10 for x in depths if x * 10 <= (10000000 if tier == "thorough" else 1000000)]:
                if name == "hash-wide" and d > 100000:
                    continue
                out.append(("%s/%s" % (name, op), d, [PRE, code.replace("{MK}", mk.replace("{n}", str(d)))], want))
    for name, mk in CYCLES:
        for op, code, want in OPS:
            if op in ("hash-key", "equal-twin"):
                continue
            for d in (1, 2, 3, 10, 10000):
                if "{n}" not in mk and d != 1:
                    continue
                out.append(("%s/%s" % (name, op), d, [PRE, code.replace("{MK}", mk.replace("{n}", str(d)))], want))
        # two independently built cycles of the same length are equal?; the comparison must at least terminate
        for d in (1, 2, 3, 10, 10000, 100000):
            if "{n}" in mk:
                out.append(("%s/equal-twin-terminates" % name, d, [PRE, "(boolean? (equal? %s %s))" % (mk.replace("{n}", str(d)), mk.replace("{n}", str(d)))], "#t"))
    return out


# ---- every small cycle: kinds around the cycle x entry point x wrapper around the entry point
MUT = ("box", "mvec", "mstruct")
ALLK = ("box", "mvec", "mstruct", "list", "hash")


def _mk_empty(k):
    return {"box": "(box 0)", "mvec": "(vector 0 'x)", "mstruct": "(MNode 0)"}[k]


def _wrap(k, x):
    return {"box": "(box %s)", "mvec": "(vector %s 'x)", "mstruct": "(MNode %s)", "list": "(list 1 %s 2)", "hash": "(hash 'k %s)"}[k] % x


def _tie(k, a, b):
    return {"box": "(set-box! %s %s)", "mvec": "(vector-set! %s 0 %s)", "mstruct": "(set-MNode-next! %s %s)"}[k] % (a, b)


def cycle_expr(kinds, root_i, wrapper):
    k = len(kinds)
    binds = ["(n0 %s)" % _mk_empty(kinds[0])]
    for i in range(k - 1, 0, -1):
        binds.append("(n%d %s)" % (i, _wrap(kinds[i], "n%d" % ((i + 1) % k))))
    root = "n%d" % root_i
    if wrapper:
        root = _wrap(wrapper, root)
    return "(let* (%s) %s %s)" % (" ".join(binds), _tie(kinds[0], "n0", "n1" if k > 1 else "n0"), root)


CYCLE_OPS = [("print", "(string? (to-string {MK}))"), ("display", "(let ((p (open-output-string))) (display {MK} p) (string? (get-output-string p)))"),
             ("write", "(let ((p (open-output-string))) (write {MK} p) (string? (get-output-string p)))"), ("equal-self", "(let ((x {MK})) (equal? x x))"),
             ("equal-twin-terminates", "(boolean? (equal? {MK} {MK}))"), ("hash-key", "(begin (hash {MK} 1) #t)")]


def small_cycles(tier):
    import itertools
    out = []
    for k in ((1, 2, 3) if tier == "thorough" else (1, 2)):
        for c0 in MUT:
            for rest in itertools.product(ALLK, repeat=k - 1):
                kinds = (c0,) + rest
                for ri in range(k):
                    for w in (None, "list", "mvec", "box", "hash"):
                        out.append(("-".join(kinds), "entry %d%s" % (ri, " inside a " + w if w else ""), cycle_expr(kinds, ri, w)))
    return out


def work_cycles(lst):
    out = []
    for cyc, root, mk in lst:
        for op, code in CYCLE_OPS:
            r = common.run_cases([{"id": 0, "steps": [PRE, code.replace("{MK}", mk)]}], batch=1, timeout_ms=3000, retry_timeouts=False)[0]
            if r["exit"] != "normal" or len(r["steps"]) < 2:
                o = "crash:" + str(r["exit"]).split(":")[0] + (":" + str(r["exit"]).split(":")[1] if str(r["exit"]).startswith("signal") else "")
            elif r["steps"][1]["s"] == "ok":
                o = "ok" if r["steps"][1]["v"][-1] == "#t" else "wrong answer"
            elif r["steps"][1]["s"] == "err":
                o = "ok"  # an error value satisfies the property
            else:
                o = "panic"
            out.append((cyc, root, op, o, code.replace("{MK}", mk)))
    return out


TIMES = {}


def work(item):
    env, lst, limit_ms = item
    import time
    out = []
    failed = {}
    for name, d, steps, want in sorted(lst, key=lambda c: (c[0], c[1])):
        if name in failed and d > failed[name]:
            out.append((name, d, "skipped-after-smaller-rung-failed", steps))
            continue
        t0 = time.time()
        r = common.run_cases([{"id": 0, "steps": steps}], env=dict(env or {}, SVH_CHILD_AS_MB="16000"), batch=1, timeout_ms=limit_ms, retry_timeouts=False)[0]
        TIMES[(name, d)] = time.time() - t0
        if r["exit"] != "normal" or len(r["steps"]) < 2:
            out.append((name, d, "crash:" + str(r["exit"]) + "@%.2f" % TIMES[(name, d)], steps))
            failed[name] = d
            continue
        st = r["steps"][1]
        if st["s"] == "panic":
            out.append((name, d, "panic: " + st.get("m", "")[:120], steps))
        elif st["s"] == "err":
            out.append((name, d, "error-value", steps))  # allowed by the property; recorded in the evidence
        elif want is not None and st["v"][-1] != want:
            out.append((name, d, "wrong answer: want %s got %s" % (want, st["v"][-1][:60]), steps))
        else:
            out.append((name, d, "ok", steps))
    return out


def work_timed(item):
    TIMES.clear()
    return work(item), dict(TIMES)


def main(argv=None):
    a = common.parse_args(argv)
    if a.replay:
        return common.replay_eval(a.replay)
    common.build()
    rep = common.Reporter(P, a.tier)
    cs = cells(a.tier)
    envs = [None]
    limit_ms = 90000 if a.tier == "thorough" else 20000
    # a cell's rungs stay together in one worker so that their times can be compared
    by_cell = {}
    for c in cs:
        by_cell.setdefault(c[0], []).append(c)
    groups = list(by_cell.values())
    items = [(env, [c for g in groups[i::32] for c in g], limit_ms) for env in envs for i in range(32)]
    res = []
    times = {}
    for r in common.pmap(work_timed, items):
        res += r[0]
        times.update(r[1])
    table = {}
    inconclusive = []
    for name, d, outcome, steps in res:
        table.setdefault(name, {})[d] = (outcome, steps)
    # a time-out on a big rung after super-linear growth on the smaller rungs is slowness, not non-termination: inconclusive
    is_cycle = set(n for n, _ in CYCLES)
    for name, rungs in table.items():
        for d in sorted(rungs):
            # the property is about crashes and native stack, not speed: a time-out of a non-cyclic shape cannot be told
            # from super-linear slowness and is inconclusive (listed in the evidence); a time-out on a cycle is non-termination
            if rungs[d][0].startswith("crash:timeout") and name.split("/")[0] not in is_cycle:
                rungs[d] = ("inconclusive-slow", rungs[d][1])
                inconclusive.append("%s@%d" % (name, d))
    n_ok = sum(1 for _, _, o, _ in res if o == "ok")
    n_err = sum(1 for _, _, o, _ in res if o == "error-value")
    for name in sorted(table):
        bad = sorted((d, o, s) for d, (o, s) in table[name].items() if o not in ("ok", "error-value", "inconclusive-slow", "skipped-after-smaller-rung-failed"))
        if bad:
            d, o, s = bad[0]  # smallest failing rung
            cls = o.split(":")[0] + (":" + o.split(":")[1].split("@")[0].strip().split(" ")[0] if o.startswith("crash") else "")
            rep.violation("%s => %s (smallest failing size on the ladder: %d)" % (name, cls, d), {"cell": name, "size": d, "outcome": o, "ladder": {str(k): v[0] for k, v in table[name].items()}},
                          {"case": {"steps": s}, "env": None, "timeout_ms": 90000})
    cyc = small_cycles(a.tier)
    cres = [x for r in common.pmap(work_cycles, common.chunks(cyc, 10)) for x in r]
    groups = {}
    for cname, root, op, o, code in cres:
        groups.setdefault((cname, op), []).append((root, o, code))
    n_cyc_ok = sum(1 for x in cres if x[3] == "ok")
    for (cname, op), lst in sorted(groups.items()):
        bad = [x for x in lst if x[1] != "ok"]
        if not bad:
            continue
        classes = set(x[1] for x in bad)
        if len(bad) == len(lst) and len(classes) == 1:
            # every entry point of this cycle fails in the same way: one finding
            rep.violation("cycle %s / %s => %s for every entry point" % (cname, op, bad[0][1]), {"cycle": cname, "operation": op, "outcome": bad[0][1], "entry_points": len(lst)},
                          {"case": {"steps": [PRE, bad[0][2]]}, "env": None, "timeout_ms": 3000})
        else:
            for root, o, code in bad:
                rep.violation("cycle %s, %s / %s => %s" % (cname, root, op, o), {"cycle": cname, "entry": root, "operation": op, "outcome": o}, {"case": {"steps": [PRE, code]}, "env": None, "timeout_ms": 3000})
    cov = {"evaluations": len(res) + len(cres), "distinct_nontrivial": n_ok + n_err + n_cyc_ok,
           "rule": "every cycle of length 1..2 (thorough 3) over {box, mutable vector, mutable struct, list, hash map} (first node mutable) x every entry point x {bare, inside a list / vector / box / hash map} x {print, display, write, equal? with itself, equal? with an independently built twin, use as hash key} with a 3 s limit; and "
                   "grid = (%d chain shapes + %d wide shapes + %d cycle shapes) x %d operations x the size ladder (depth 10^3..10^5, thorough 10^6; width x10; "
                   "cycle lengths 1,2,3,10,10^4); each cell runs in a forked child with the default 8 MiB stack and a 90 s limit; non-trivial = cells that "
                   "completed with a value or an error value" % (len(SHAPES), len(WIDE), len(CYCLES), len(OPS)),
           "samples": [cs[7][2][1], cs[len(cs) // 2][2][1], cs[-1][2][1]], "exhaustive": True, "cells": len(cs), "small_cycle_cells": len(cres), "ok": n_ok, "inconclusive_slow_cells": inconclusive, "time_limit_s": limit_ms / 1000, "error_values": n_err,
           "error_value_cells": sorted(set("%s@%d" % (n, d) for n, d, o, _ in res if o == "error-value"))[:60]}
    return rep.finish("exploration", cov, assumptions=["an error VALUE (e.g. a depth limit reported as an error) satisfies the property; a signal, abort, panic or timeout does not"])


if __name__ == "__main__":
    sys.exit(main())
