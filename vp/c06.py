"""C06 – earlier definitions keep their meaning across any evaluation history.
Structured enumeration of histories on one engine: setup events (define / observer functions of 12 reference kinds / redefine /
set!), optional failing unit, optional slot-recycling phase (BULK: >100/200/400 shadowing redefinitions, then DRAIN: enough fresh
definitions to reuse every freed slot), optional late event; after EVERY event all observers are called and compared with the
binding-cell semantics of vp/ref_scheme.py (a unit's references resolve to the cells in force after the unit's own defines)."""
import sys, json, itertools
from . import common, ref_scheme

P = "C06"

# observer kinds: (definition template, observation expr). {k} = unique index
OBS = [
    ("rd", "(define (o{k}) a)", "(o{k})"),
    ("rd-nested", "(define (o{k}) ((lambda () a)))", "(o{k})"),
    ("rd-list", "(define (o{k}) (list a a))", "(o{k})"),
    ("rd-arith", "(define (o{k}) (+ a 1))", "(o{k})"),
    ("call", "(define (o{k}) (p))", "(o{k})"),
    ("call-nontail", "(define (o{k}) (list (p)))", "(o{k})"),
    ("stored-box", "(define o{k} (box (lambda () a)))", "((unbox o{k}))"),
    ("stored-vec", "(define o{k} (vector (lambda () (p))))", "((vector-ref o{k} 0))"),
    ("hof", "(define (o{k}) (map (lambda (x) a) (list 1)))", "(o{k})"),
    ("fn-value", "(define o{k} p)", "(o{k})"),
    ("writer", "(define (o{k} v) (set! a v))", None),
    ("rd-if", "(define (o{k}) (if (< a 0) 'neg a))", "(o{k})"),
    # two closures made from the same lambda with different captures; only one of them leads to a reader of a
    # (";;" separates compilation units: within one unit the factory would be inlined)
    ("factory-2nd", "(define (mk{k} f) (lambda () (f))) ;; (define d{k} (mk{k} (lambda () 0))) ;; (define o{k} (mk{k} (lambda () a)))", "(o{k})"),
    ("factory-1st", "(define (mk{k} f) (lambda () (f))) ;; (define o{k} (mk{k} (lambda () a))) ;; (define d{k} (mk{k} (lambda () 0)))", "(o{k})"),
    # a global bound to a native function, called by name
    ("native-call", "(define (o{k}) (list (q (list 1 2))))", "(o{k})"),
    ("native-tail", "(define (o{k}) (q (list 1 2)))", "(o{k})"),
]
CHANGES = [
    ("redef-a", "(define a {n})"),
    ("redef-p", "(define (p) 'p{k})"),
    ("redef-p-lambda", "(define p (lambda () 'q{k}))"),
    ("set-a", "(set! a {n})"),
    ("set-p", "(set! p (lambda () 's{k}))"),
    ("use-writer", None),  # calls the most recent writer observer, if any
    ("set-q", "(set! q cdr)"),
    ("redef-q", "(define q cdr)"),
]
FAILS = [
    ("none", None, None),
    ("rt-err-after-define", "(define a 7000) (car 0)", "runtime"),
    ("compile-err-after-define", "(define a 8000) (vf-undefined-thing 1)", "compile"),
    ("rt-err", "(vector-ref (vector) 3)", "runtime"),
    ("macro-err-after-define", "(define a 9000) (let vf-loop)", "compile"),
]
BULKS = [0, 101, 201]
DRAIN_N = 320
BASE = ["(define a 1)", "(define (p) 'p0)", "(define q car)"]


def setup_events():
    ev = [("obs", i) for i in range(len(OBS))] + [("chg", i) for i in range(len(CHANGES))]
    return ev


def build_history(setup, fail, bulk, late):
    """-> list of (step text, kind) where kind in run / compile-err / observe-marker"""
    steps = [(s, "run") for s in BASE]
    observers = []  # (kind, obs expr)
    writers = []
    k = [0]

    def emit(e):
        k[0] += 1
        kk = k[0]
        if e[0] == "obs":
            name, d, o = OBS[e[1]]
            for unit in d.replace("{k}", str(kk)).split(";;"):
                steps.append((unit.strip(), "run"))
            if o:
                observers.append(o.replace("{k}", str(kk)))
            else:
                writers.append("o%d" % kk)
        else:
            name, t = CHANGES[e[1]]
            if name == "use-writer":
                if not writers:
                    return False
                steps.append(("(%s %d)" % (writers[-1], 500 + kk), "run"))
            else:
                steps.append((t.replace("{k}", str(kk)).replace("{n}", str(100 + kk)), "run"))
        steps.append(("OBSERVE", list(observers)))
        return True
    for e in setup:
        if not emit(e):
            return None
    if fail[1]:
        steps.append((fail[1], "compile-err" if fail[2] == "compile" else "run"))
        steps.append(("OBSERVE", list(observers)))
    if bulk:
        for i in range(bulk):
            steps.append(("(define vfscratch %d)" % i, "run"))
        steps.append((" ".join("(define vfz%d 'z%d)" % (i, i) for i in range(DRAIN_N)), "run"))
        steps.append(("OBSERVE", list(observers)))
    if late is not None:
        if not emit(late):
            return None
    return steps


def observe_code(obs):
    return "(list a (p) (q (list 3 4)) %s)" % " ".join(obs)


def materialise(hist):
    """-> (engine steps, plan) ; plan[i] = 'run' | 'compile-err' | 'observe'"""
    out, plan = [], []
    for s, kind in hist:
        if s == "OBSERVE":
            out.append(observe_code(kind))
            plan.append("observe")
        else:
            out.append(s)
            plan.append(kind)
    return out, plan


_I = None


def expected(steps, plan):
    global _I
    if _I is None:
        _I = ref_scheme.Interp(order="lr", budget=2000000)
        _I._g0 = dict(_I.globals)
    I = _I
    I.globals = dict(I._g0)
    exp = []
    for s, kind in zip(steps, plan):
        if kind == "compile-err":
            exp.append(("err", None))  # rejected as a whole: bindings untouched
            continue
        I.out = []
        r = I.run_text(s)
        if r[0] == "ok":
            v = ref_scheme.enc(r[1][-1]) if r[1] else "(void)"
            exp.append(("ok", None if "(unspec)" in v else v))
        else:
            exp.append(("err", None))
    return exp


def work(lst):
    env, items = lst
    cases, meta = [], {}
    for hid, desc, hist in items:
        steps, plan = materialise(hist)
        cases.append({"id": hid, "steps": steps})
        meta[hid] = (desc, steps, plan)
    res = common.run_cases(cases, env=env, batch=1, timeout_ms=60000)
    fails = []
    n_obs = 0
    for hid, (desc, steps, plan) in meta.items():
        exp = expected(steps, plan)
        r = res[hid]
        if r["exit"] != "normal":
            fails.append((desc, "crash:" + r["exit"], None, steps))
            continue
        for i, (st, (es, ev), kind) in enumerate(zip(r["steps"], exp, plan)):
            if st["s"] == "panic":
                fails.append((desc, "panic at step %d" % i, st.get("m", "")[:150], steps[:i + 1]))
                break
            got = "ok" if st["s"] == "ok" else "err"
            if kind == "observe":
                n_obs += 1
            if got != es:
                fails.append((desc, "%s step %d %r: want %s got %s" % (kind, i, steps[i][:60], es, got), st.get("m", "")[:150], steps[:i + 1]))
                break
            if kind == "observe" and ev is not None and st["v"][-1] != ev:
                fails.append((desc, "observers after step %d: want %s got %s" % (i - 1, ev, st["v"][-1]), None, steps[:i + 1]))
                break
    return len(items), n_obs, fails


def enumerate_histories(tier):
    thorough = tier == "thorough"
    ev = setup_events()
    setups = [()] + [(e,) for e in ev] + [(e1, e2) for e1 in ev for e2 in ev]
    if thorough:
        obs_first = [("obs", i) for i in (0, 4, 6)]
        setups += [(o, e1, e2) for o in obs_first for e1 in ev for e2 in ev if e1[0] == "chg"]
    lates = [None, ("chg", 0), ("chg", 1)] + ([("chg", 3), ("chg", 4), ("obs", 0), ("obs", 4)] if thorough else [])
    bulks = BULKS + ([401] if thorough else [])
    out = []
    hid = 0
    for s in setups:
        for f in FAILS:
            for b in bulks:
                for l in lates:
                    if not thorough and b == 0 and l is not None and len(s) == 2:
                        continue
                    if not thorough and b and f[0] not in ("none", "rt-err-after-define") and len(s) == 2:
                        continue
                    h = build_history(s, f, b, l)
                    if h is None:
                        continue
                    desc = "%s | fail=%s | bulk=%d | late=%s" % (
                        " ; ".join((OBS if e[0] == "obs" else CHANGES)[e[1]][0] for e in s) or "-", f[0], b,
                        ((OBS if l[0] == "obs" else CHANGES)[l[1]][0] if l else "-"))
                    out.append((hid, desc, h))
                    hid += 1
    return out


def main(argv=None):
    a = common.parse_args(argv)
    if a.replay:
        return common.replay_eval(a.replay)
    common.build()
    rep = common.Reporter(P, a.tier)
    hs = enumerate_histories(a.tier)
    envs = [None] + ([{"STEEL_JIT": "false"}] if a.tier == "thorough" else [])
    # BULK histories are ~0.2 s each: interleave so that every worker gets a similar mix
    items = [(env, ch) for env in envs for ch in common.split_round_robin(hs, 64)]
    results = common.pmap(work, items)
    n = sum(r[0] for r in results)
    n_obs = sum(r[1] for r in results)
    fails = [f for r in results for f in r[2]]
    import re

    def comps(desc):
        su, fa, bu, la = desc.split(" | ")
        su = tuple(x for x in su.split(" ; ") if x != "-")
        return su, fa[5:], int(bu[5:]), la[5:]

    def subseq(x, y):
        it = iter(y)
        return all(any(a == b for b in it) for a in x)

    def leq(c1, c2):
        return (subseq(c1[0], c2[0]) and (c1[1] == "none" or c1[1] == c2[1]) and (c1[2] == 0 or 0 < c1[2] <= c2[2])
                and (c1[3] == "-" or c1[3] == c2[3]))

    def fclass(why):
        if why.startswith("observers after"):
            return "stale-or-wrong-value"
        if why.startswith("observe"):
            return "observer-errors"
        return re.sub(r"\d+", "N", why).split(":")[0][:40]
    cl = {}
    for f in fails:
        cl.setdefault(fclass(f[1]), []).append((comps(f[0]), f))
    for c, lst in sorted(cl.items()):
        # minimal histories only: no other failing history of the same class is contained in it
        mins = [(k, f) for k, f in lst if not any(k2 != k and leq(k2, k) for k2, _ in lst)]
        seen = set()
        for k, (desc, why, detail, steps) in sorted(mins, key=lambda m: (len(m[1][0]), m[1][0])):
            key = (k[0], k[1], k[2] > 0, k[3])
            if key in seen:
                continue
            seen.add(key)
            rep.violation("history [%s] => %s" % (re.sub(r"bulk=[1-9]\d*", "bulk>0", desc), c), {"history": desc, "why": why, "detail": detail},
                          {"case": {"steps": steps}, "env": None, "timeout_ms": 60000})
    cov = {"states": n, "transitions": n_obs, "traces_validated_against_impl": n,
           "evaluations": n, "distinct_nontrivial": n,
           "rule": "every history = base (define a, define p) + setup of <= 2 (thorough 3) events from 12 observer kinds and 6 change kinds + "
                   "optional failing unit (4 kinds) + optional recycling phase (BULK of 101/201(/401) one-form shadowing units, then one unit "
                   "defining %d fresh names so that every freed slot is reused) + optional late change; after every event all observers, a and "
                   "(p) are evaluated and compared with the binding-cell reference; states = histories, transitions = observation points" % DRAIN_N,
           "samples": [hs[len(hs) // 4][1], hs[len(hs) // 2][1], hs[-1][1]], "exhaustive": True, "histories": len(hs), "configs": len(envs),
           "observation_points": n_obs}
    return rep.finish("model_checking", cov, assumptions=[
        "reference: vp/ref_scheme.py binding cells; a unit with a compile-time error is expected to leave all bindings untouched",
        "DRAIN defines more fresh names (%d) than slots can be freed by the largest BULK, so the outcome does not depend on HashSet order" % DRAIN_N])


if __name__ == "__main__":
    sys.exit(main())
