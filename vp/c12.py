"""C12 – reading is total and inverse to writing.
(a) totality + span sanity of the parser on every string up to length L over a 26-character alphabet, and every token
    sequence up to length K from a token menu (in-process enumeration inside a forked child of the harness);
    runtime `read` on a string port for every string of a shorter length;
(b) write/read round trip inside the engine for every datum of size <= n over a leaf alphabet chosen from the lexer's branches;
(c) parse -> print -> parse equality (up to spans) for a syntax zoo and enumerated small programs."""
import sys, json, itertools
from . import common

P = "C12"
CHARS = ["(", ")", "[", "]", "'", "`", ",", "@", "#", "\\", "\"", "|", ";", ".", "+", "-", "/", "0", "1", "e", "x", "t", "a",
         "λ", " ", "\n"]
TOKENS = ["(", ")", "[", "]", "{", "}", "'", "`", ",", ",@", "#(", "#u8(", ".", "\"", "\\", "|", ";", "#;", "#|", "|#", "#\\",
          "#t", "#%", "a", "λ", "1", "-1", "1/2", "1e3", "+inf.0", "define", "lambda", "let", "if", "set!", "quote", "begin",
          "define-syntax", "syntax-rules", "...", "_", "require", "provide", "#\\a", "\"s\"", "#x1F", "1/0", "#e1.5", "-", "+"]


def total_requests(alpha, sep, length, nslices):
    n = len(alpha) ** length
    step = max(1, (n + nslices - 1) // nslices)
    return [{"op": "total", "alphabet": alpha, "sep": sep, "len": length, "start": s, "end": min(n, s + step)}
            for s in range(0, n, step)]


def run_parse_req(req):
    h = common.harness("parse")
    out, ex = h.request(req)
    body = [o for o in out if "progress" not in o]
    prog = [o["progress"] for o in out if "progress" in o]
    if ex != "normal" or not body:
        # the child died: attribute to a single string by re-running narrower ranges
        if req["op"] == "total":
            lo = prog[-1] if prog else req["start"]
            hi = min(req["end"], lo + 4096)
            if hi - lo <= 1:
                return {"n": 1, "ok": 0, "err": 0, "fails": [{"s": nth(req, lo), "why": "child died: " + str(ex)}]}
            # bisect
            res = {"n": 0, "ok": 0, "err": 0, "fails": []}
            if lo > req["start"]:
                r0 = run_parse_req(dict(req, end=lo))
                for k in ("n", "ok", "err"):
                    res[k] += r0[k]
                res["fails"] += r0["fails"]
            mid = (lo + hi) // 2
            for a, b in ((lo, mid), (mid, hi), (hi, req["end"])):
                if b > a:
                    r1 = run_parse_req(dict(req, start=a, end=b))
                    for k in ("n", "ok", "err"):
                        res[k] += r1[k]
                    res["fails"] += r1["fails"]
            return res
        return {"n": 0, "parsed": 0, "fails": [{"s": json.dumps(req)[:200], "why": "child died: " + str(ex)}]}
    return body[0]


def nth(req, idx):
    a = req["alphabet"]
    parts = []
    for _ in range(req["len"]):
        parts.append(a[idx % len(a)])
        idx //= len(a)
    return req["sep"].join(reversed(parts))


# ---------------------------------------------------------------- (b) datums
# leaf = (constructor expression, is-nan)
LEAVES = [
    "0", "1", "-1", "9223372036854775807", "-9223372036854775808", "9223372036854775808", "123456789012345678901234567890",
    "1/2", "-1/3", "18446744073709551617/3", "1.5", "-0.0", "0.0", "1e21", "1e-7", "5e-324", "1.7976931348623157e308",
    "+inf.0", "-inf.0", "100.0", "0.1", "#t", "#f",
    "#\\a", "#\\space", "#\\newline", "#\\tab", "#\\null", "#\\(", "#\\)", "#\\\\", "#\\\"", "#\\x41", "#\\λ", "#\\;", "#\\#",
    "(integer->char 0)", "(integer->char 127)", "(integer->char 1114111)", "(integer->char 55295)", "(integer->char 8232)",
    "\"\"", "\"a\"", "\"a b\"", "\"\\\\\"", "\"\\\"\"", "\"\\n\"", "\"\\t\"", "\"\\r\"", "\"λ\"",
    "(string (integer->char 0))", "(string (integer->char 7))", "(string (integer->char 27))", "(string (integer->char 127))",
    "(string (integer->char 1114111))", "(string #\\a (integer->char 10) #\\b)", "\"#\\\\a\"", "\"(\"", "\";\"", "\"|\"",
    "'a", "'abc", "'+", "'-", "'...", "'a.b", "'a-b", "'->", "'λ", "'set!",
    "(string->symbol \"\")", "(string->symbol \"a b\")", "(string->symbol \"1\")", "(string->symbol \"1+\")",
    "(string->symbol \"+1\")", "(string->symbol \"1/2\")", "(string->symbol \".\")", "(string->symbol \"#t\")",
    "(string->symbol \"a(b\")", "(string->symbol \"a)\")", "(string->symbol \"a;b\")", "(string->symbol \"a\\\"b\")",
    "(string->symbol \"a|b\")", "(string->symbol \"#a\")", "(string->symbol \"a'b\")", "(string->symbol \"'a\")",
    "(string->symbol \"A\")", "(string->symbol \"a\\nb\")", "(string->symbol \",a\")", "(string->symbol \"1e3\")",
    "(string->symbol \"+inf.0\")", "(string->symbol \"a\\\\b\")", "(string->symbol \"#\\\\a\")",
    "'()", "(bytes)", "(bytes 0 1 255)",
]
COMPOUND = [
    ("(list %s)", 1), ("(list %s %s)", 2), ("(cons %s %s)", 2), ("(list %s (list %s))", 2), ("(cons %s (cons %s %s))", 3),
    ("(vector-immutable %s)", 1), ("(vector-immutable %s %s)", 2), ("(list 'quote %s)", 1), ("(list 'quasiquote %s)", 1),
    ("(list 'unquote %s)", 1), ("(list 'unquote-splicing %s)", 1), ("(list (vector-immutable %s) %s)", 2),
]

PRELUDE = ["(define (vf-w d) (call-with-output-string (lambda (p) (write d p))))",
           "(define (vf-rt d) (let ((s (vf-w d))) (list (equal? d (read (open-input-string s))) s)))"]


def datum_exprs(tier):
    out = list(LEAVES)
    leaves2 = LEAVES if tier == "thorough" else LEAVES[::1]
    for tmpl, k in COMPOUND:
        if k == 1:
            for a in LEAVES:
                out.append(tmpl % a)
        elif k == 2:
            pool = leaves2 if tier == "thorough" else LEAVES[::3]
            for a in pool:
                for b in pool:
                    out.append(tmpl % (a, b))
        elif k == 3 and tier == "thorough":
            pool = LEAVES[::5]
            for t in itertools.product(pool, repeat=3):
                out.append(tmpl % t)
        elif k == 3:
            pool = LEAVES[::11]
            for t in itertools.product(pool, repeat=3):
                out.append(tmpl % t)
    return out


def ladder_exprs(tier):
    """wide and deep data around the writer's recursion guard (a fixed depth budget): every leaf repeated N times followed by a
    trailer, and every leaf nested N levels deep"""
    out = []
    widths = (130, 300) if tier != "thorough" else (130, 300, 2000)
    depths = (20, 100) if tier != "thorough" else (20, 100, 120)
    for leaf in LEAVES:
        for n in widths:
            out.append("(append (map (lambda (i) %s) (range 0 %d)) (list 'end 1 \"s\" (list 2)))" % (leaf, n))
            out.append("(list->vector (append (map (lambda (i) (list %s)) (range 0 %d)) (list 'end (list 2))))" % (leaf, n))
        for n in depths:
            out.append("(let loop ((i 0) (acc %s)) (if (= i %d) (list acc 'end) (loop (+ i 1) (list acc))))" % (leaf, n))
    return out


def work_datums(lst):
    """lst of (id, expr)"""
    cases = [{"id": i, "steps": PRELUDE + ["(vf-rt %s)" % e]} for i, e in lst]
    res = common.run_cases(cases, batch=1, timeout_ms=20000)
    fails, outcomes = [], set()
    for i, e in lst:
        r = res[i]
        if r["exit"] != "normal" or len(r["steps"]) < 3:
            fails.append((e, "crash:" + str(r["exit"]), None))
            outcomes.add("crash")
            continue
        st = r["steps"][2]
        if st["s"] == "ok":
            v = st["v"][-1]
            if v.startswith("(lst #t "):
                outcomes.add("roundtrip")
                continue
            outcomes.add("not-equal")
            fails.append((e, "written form does not read back equal?", v))
        else:
            outcomes.add(st["s"])
            fails.append((e, "%s: %s" % (st["s"], st.get("m", "")[:150]), None))
    return len(lst), fails, sorted(outcomes)


def work_read(lst):
    """runtime reader totality: (read (open-input-string s)) returns a value or an error, never crashes"""
    cases = [{"id": i, "steps": ["(read (open-input-string %s))" % json.dumps(s, ensure_ascii=False)]} for i, s in lst]
    res = common.run_cases(cases, batch=50, timeout_ms=20000)
    fails = []
    kinds = set()
    for i, s in lst:
        r = res[i]
        if r["exit"] != "normal" or not r["steps"]:
            fails.append((s, "crash:" + str(r["exit"])))
            kinds.add("crash")
        elif r["steps"][0]["s"] == "panic":
            fails.append((s, "panic: " + r["steps"][0].get("m", "")[:120]))
            kinds.add("panic")
        else:
            kinds.add(r["steps"][0]["s"])
    return len(lst), fails, sorted(kinds)


READ_HIST = ["1", "a", "(1 2)", "\"s\"", "1 2", "(1) (2)", "(1", "((", "\"abc", "#(1", "'", "'(", "a \"b", "|a", "#;", "#| x", ")", "1 )",
             "(1 . ", "#\\", "", " ", ";c", "(a \"b)", "#u8(1"]


def work_read_hist(lst):
    """differential, from non-initial states: reading a fresh port must not depend on what an earlier port contained"""
    rd = lambda s: "(read (open-input-string %s))" % json.dumps(s, ensure_ascii=False)
    cases = []
    for i, (s1, s2) in lst:
        cases.append({"id": i, "steps": [rd(s1), rd(s2)]})
        cases.append({"id": -i - 1, "steps": [rd(s2)]})
    res = common.run_cases(cases, batch=1, timeout_ms=20000)
    fails = []

    def obs(st):
        return st["v"][-1] if st["s"] == "ok" else st["s"]
    for i, (s1, s2) in lst:
        a, b = res[i], res[-i - 1]
        if a["exit"] != "normal" or b["exit"] != "normal" or len(a["steps"]) < 2:
            fails.append((s1, s2, "crash", None, None))
            continue
        o2, o1 = obs(a["steps"][1]), obs(b["steps"][0])
        if o1 != o2:
            fails.append((s1, s2, "differs", o1, o2))
    return len(lst), fails


# ---------------------------------------------------------------- (e) number-literal table histories
SPECIALS = ["-0.0", "0.0", "+inf.0", "-inf.0", "1/3", "-1/3", "1e21", "123456789012345678901234567890", "#xFF", "#e1.5", "#i1/4", "1.", ".5", "-.5e1"]


def numtable_histories(tier):
    """one engine per history: a special literal, then literals that are new to the process (each history uses numbers nobody else uses), then the
    special one again - through read, through a quoted datum and through an expression; every element must come back as itself"""
    out = []
    k = 0
    for sp in SPECIALS:
        for how in ("read", "quote", "expr"):
            for n_fresh in (1, 2, 3):
                k += 1
                fresh = ["%d.%d25" % (86000 + 7 * k + j, j) for j in range(n_fresh)] + (["%d/%d" % (9001 + 2 * k, 9002 + 2 * k)] if n_fresh == 3 else [])
                out.append((sp, how, fresh))
    return out


def work_numtable(lst):
    fails = []
    for sp, how, fresh in lst:
        def one(x):
            return "(read (open-input-string %s))" % json.dumps(x) if how == "read" else ("(quote %s)" % x if how == "quote" else x)
        def many(xs):
            if how == "read":
                return "(read (open-input-string %s))" % json.dumps("(" + " ".join(xs) + ")")
            return "(quote (%s))" % " ".join(xs) if how == "quote" else "(list %s)" % " ".join(xs)
        steps = [one(sp)] + [one(f) for f in fresh] + [one(sp), many([sp] + fresh + [sp]), many(fresh + [sp, sp])]
        alone = common.run_cases([{"id": 0, "steps": [one(sp)] + [one(f) for f in fresh]}], batch=1, timeout_ms=20000)[0]
        r = common.run_cases([{"id": 0, "steps": steps}], batch=1, timeout_ms=20000)[0]
        if r["exit"] != "normal" or alone["exit"] != "normal" or len(r["steps"]) != len(steps):
            fails.append((sp, how, fresh, "crash", ""))
            continue
        # reference = each literal read in an engine of its own order-independently: the first occurrence of each in `alone`
        val = {}
        ok = True
        for x, st in zip([sp] + fresh, alone["steps"]):
            if st["s"] != "ok":
                ok = False
            else:
                val[x] = st["v"][-1]
        if not ok:
            continue  # the literal form itself is not readable this way (covered by the literal reference)
        want_again = val[sp]
        got_again = r["steps"][1 + len(fresh)]
        if got_again["s"] != "ok" or got_again["v"][-1] != want_again:
            fails.append((sp, how, fresh, "changed", "%s read again gives %s, first %s" % (sp, (got_again.get("v") or ["error"])[-1], want_again)))
            continue
        for seq, st in (([sp] + fresh + [sp], r["steps"][-2]), (fresh + [sp, sp], r["steps"][-1])):
            want = "(lst " + " ".join(val[x] for x in seq) + ")"
            if st["s"] != "ok" or st["v"][-1] != want:
                fails.append((sp, how, fresh, "list", "(%s) gives %s, want %s" % (" ".join(seq), (st.get("v") or ["error"])[-1][:120], want[:120])))
                break
    return len(lst), fails


# ---------------------------------------------------------------- (d) literal reference (escapes)
BAR_PIECES = [("a", "a"), ("λ", "λ"), (" ", " "), ("\\|", "|"), ("\\\\", "\\"), ("\\x41;", "A"), ("\\n", "\n"), ("(", "("),
              ("#", "#"), ("😀", "😀"), (";", ";"), ("\\t", "\t")]
STR_PIECES = [("a", "a"), ("λ", "λ"), ("\\\\", "\\"), ("\\\"", "\""), ("\\n", "\n"), ("\\t", "\t"), ("\\x41;", "A"),
              ("\\x3bb;", "λ"), (" ", " "), ("😀", "😀"), ("|", "|"), (";", ";"), ("\\a", "\x07"), ("\\0", "\x00")]


def literal_cases(tier):
    """(source expression, expected encoding): what a literal denotes, from the R7RS escape rules"""
    L = 4 if tier == "thorough" else 3
    out = []
    for n in range(0, L + 1):
        for combo in itertools.product(BAR_PIECES, repeat=n):
            src = "".join(p for p, d in combo)
            dec = "".join(d for p, d in combo)
            out.append(("(symbol->string '|%s|)" % src, "(str %s)" % json.dumps(dec, ensure_ascii=False)))
        for combo in itertools.product(STR_PIECES, repeat=n):
            src = "".join(p for p, d in combo)
            dec = "".join(d for p, d in combo)
            out.append(("\"%s\"" % src, "(str %s)" % json.dumps(dec, ensure_ascii=False)))
    return out


def work_literals(lst):
    """lst of (expr, want); 150 literals per step, failures re-run one per step for attribution"""
    fails = []
    groups = common.chunks(lst, 150)
    cases = [{"id": i, "steps": ["(list %s)" % " ".join(e for e, w in g)]} for i, g in enumerate(groups)]
    res = common.run_cases(cases, batch=8, timeout_ms=60000)
    redo = []
    for i, g in enumerate(groups):
        r = res[i]
        want = "(lst " + " ".join(w for e, w in g) + ")" if g else "(lst)"
        if r["exit"] == "normal" and r["steps"] and r["steps"][0]["s"] == "ok" and r["steps"][0]["v"][-1] == want:
            continue
        redo += g
    if redo:
        cases = [{"id": i, "steps": [e]} for i, (e, w) in enumerate(redo)]
        res = common.run_cases(cases, batch=20, timeout_ms=20000)
        for i, (e, w) in enumerate(redo):
            r = res[i]
            got = "crash:%s" % r["exit"] if (r["exit"] != "normal" or not r["steps"]) else (
                r["steps"][0]["v"][-1] if r["steps"][0]["s"] == "ok" else r["steps"][0]["s"])
            if got != w:
                fails.append((e, w, got))
    return len(lst), fails


# ---------------------------------------------------------------- (c) programs
ZOO = [
    "(define x 1)", "(define (f x) (if x 1 2))", "(define (f . xs) xs)", "(define (f a . xs) xs)", "(lambda (x) x)", "(lambda x x)",
    "(lambda (x . y) x)", "(lambda (x y . z) z)", "(λ (x) x)", "(fn (x) x)", "(let ((x 1) (y 2)) (+ x y))", "(let loop ((i 0)) (loop i))",
    "(let* ((x 1)) x)", "(letrec ((f (lambda () 1))) (f))", "(begin 1 2 3)", "(begin)", "(if a b c)", "(if a b)", "(set! x 1)",
    "(quote a)", "'a", "'(1 . 2)", "'(1 2 . 3)", "'()", "`(a ,b ,@c)", "'#(1 2)", "#(1 2)", "'(quote a)", "''a", "'`a", "',a",
    "(define-syntax m (syntax-rules () [(_ a ...) (list a ...)]))", "(define-syntax m (syntax-rules (x) [(_ x) 1] [(_ . r) 2]))",
    "(require \"a.scm\")", "(require (only-in \"a.scm\" x))", "(provide x y)", "(return! 1)", "(struct p (x y))", "(cond [a 1] [else 2])",
    "(case x [(1) 2] [else 3])", "(and a b)", "(or a b)", "(when a b)", "(unless a b)", "(do ((i 0 (+ i 1))) ((= i 3) i))",
    "(f \"a\\nb\" #\\a 1.5 1/2 #t #f)", "(f \"\\\\\" \"\\\"\")", "(f #\\space #\\( #\\))", "(f -0.0 +inf.0 -inf.0 +nan.0 1e21)", "(f 'a.b '|a b|)",
    "(f #u8(1 2))", "(f . args)", "((lambda (x) x) 1)", "(define-values (a b) (values 1 2))", "(let-values (((a b) (values 1 2))) a)",
    "(f #:key 1)", "(lambda (#:key [k 1]) k)", "(define (g #:a a) a)", "#;(hidden) 1", "(a #| c |# b)", "(a ; c\n b)",
    "(quasiquote (a (unquote b)))", "(syntax-rules () [(_) 1])", "(let () 1)", "(lambda () 1)", "(define f (lambda (x) x))",
]
CORE_ATOMS = ["x", "1", "#t", "\"s\"", "'q", "'()"]


def small_programs(tier):
    """all core terms of size <= n over a tiny alphabet (canonical variable x)"""
    level = [list(CORE_ATOMS)]
    n = 3 if tier == "thorough" else 2
    for _ in range(n):
        prev = [t for l in level for t in l]
        new = []
        for a in prev:
            new.append("(lambda (x) %s)" % a)
            new.append("(lambda (x . y) %s)" % a)
            new.append("(quote %s)" % a)
            new.append("(set! x %s)" % a)
            new.append("(define x %s)" % a)
            new.append("(let ((x %s)) x)" % a)
            new.append("(begin %s)" % a)
        base = prev if len(prev) < 60 else prev[::max(1, len(prev) // 60)]
        for a in base:
            for b in base:
                new.append("(%s %s)" % (a, b))
                new.append("(if %s %s)" % (a, b))
                new.append("(begin %s %s)" % (a, b))
        level.append(new)
    seen, out = set(), []
    for l in level:
        for t in l:
            if t not in seen:
                seen.add(t)
                out.append(t)
    return out


def work_roundtrip(texts):
    r = run_parse_req({"op": "roundtrip", "texts": texts})
    return r


def _prog_class(t):
    r = run_parse_req({"op": "roundtrip", "texts": [t]})
    return r["fails"][0]["why"].split(":")[0] if r["fails"] else None


def _shrink_prog(f):
    from .shrink import shrink
    cls = f["why"].split(":")[0]
    m = shrink(f["s"], lambda t: _prog_class(t) == cls, atoms=("1", "x"))
    return (m, cls, f)


def _datum_class(e):
    n, fails, _ = work_datums([(0, e)])
    return fails[0][1].split(":")[0] if fails else None


def _shrink_datum(f):
    """replace leaf arguments by 1 while the same failure class persists (never touches the constructor)"""
    e, why, v = f
    cls = why.split(":")[0]
    cur = e
    if e in LEAVES:
        return (e, cls, f)
    for leaf in sorted(LEAVES, key=len, reverse=True):
        if leaf == "1":
            continue
        while leaf in cur and cur != leaf:
            i = cur.index(leaf)
            t = cur[:i] + "1" + cur[i + len(leaf):]
            if _datum_class(t) == cls:
                cur = t
            else:
                break
    return (cur, cls, f)


def shrink_all(fails, fn, text_of, cap=300):
    """shrink the `cap` smallest failures in parallel; the rest only if no minimal core found so far occurs in them"""
    fails = sorted(fails, key=lambda f: (len(text_of(f)), text_of(f)))
    out = common.pmap(fn, fails[:cap]) if fails else []
    cores = set(m for m, _, _ in out)
    rest = [f for f in fails[cap:] if not any(c in text_of(f) for c in cores)]
    if rest:
        out += common.pmap(fn, rest[:cap])
    return out


def main(argv=None):
    a = common.parse_args(argv)
    if a.replay:
        r = json.load(open(a.replay))
        print(json.dumps(r, indent=1, ensure_ascii=False))
        common.build()
        rp = r["replay"]
        if rp["kind"] == "parse":
            res = run_parse_req({"op": "total", "alphabet": [rp["s"]], "sep": "", "len": 1, "start": 0, "end": 1})
            print("now:", res)
            return 1 if res["fails"] else 0
        if rp["kind"] == "roundtrip":
            res = run_parse_req({"op": "roundtrip", "texts": [rp["s"]]})
            print("now:", res)
            return 1 if res["fails"] else 0
        if rp["kind"] == "datum":
            n, fails, _ = work_datums([(0, rp["expr"])])
            print("now:", fails)
            return 1 if fails else 0
        if rp["kind"] == "literal":
            n, fails = work_literals([(rp["expr"], rp["want"])])
            print("now:", fails)
            return 1 if fails else 0
        if rp["kind"] == "readhist":
            n, fails = work_read_hist([(0, (rp["s1"], rp["s2"]))])
            print("now:", fails)
            return 1 if fails else 0
        if rp["kind"] == "read":
            n, fails, _ = work_read([(0, rp["s"])])
            print("now:", fails)
            return 1 if fails else 0
        return 2
    common.build()
    rep = common.Reporter(P, a.tier)
    thorough = a.tier == "thorough"
    # (a) parser totality
    reqs = []
    maxlen = 6 if thorough else 5
    for L in range(0, maxlen + 1):
        reqs += total_requests(CHARS, "", L, 1 if L < 4 else (64 if L < 6 else 512))
    tok_len = 4 if thorough else 3
    for L in range(1, tok_len + 1):
        for sep in ("", " "):
            reqs += total_requests(TOKENS, sep, L, 1 if L < 3 else 64)
    res = common.pmap(run_parse_req, reqs)
    n_parse = sum(r["n"] for r in res)
    n_ok = sum(r["ok"] for r in res)
    n_err = sum(r["err"] for r in res)
    for r in res:
        for f in r["fails"]:
            rep.violation("parse %s => %s" % (json.dumps(f["s"], ensure_ascii=False), f["why"].split(" (")[0]),
                          f, {"kind": "parse", "s": f["s"]})
    # runtime read
    rl = 4 if thorough else 3
    strs = []
    for L in range(0, rl + 1):
        strs += ["".join(t) for t in itertools.product(CHARS, repeat=L)]
    strs += [" ".join(t) for t in itertools.product(TOKENS[:30], repeat=2)]
    items = common.chunks(list(enumerate(strs)), 1500)
    rres = common.pmap(work_read, items)
    n_read = sum(r[0] for r in rres)
    read_kinds = set()
    for r in rres:
        read_kinds.update(r[2])
        for s, why in r[1]:
            rep.violation("read %s => %s" % (json.dumps(s, ensure_ascii=False), why.split(":")[0]), {"s": s, "why": why},
                          {"kind": "read", "s": s})
    # read-after-read histories
    pairs = [(s1, s2) for s1 in READ_HIST for s2 in READ_HIST]
    hres = common.pmap(work_read_hist, common.chunks(list(enumerate(pairs)), 60))
    n_hist = sum(r[0] for r in hres)
    poison = {}
    for r in hres:
        for s1, s2, why, o1, o2 in r[1]:
            if s1 not in poison or (len(s2), s2) < (len(poison[s1][0]), poison[s1][0]):
                poison[s1] = (s2, why, o1, o2)
    single = {"1", "a", "(1 2)", "\"s\""}  # members of READ_HIST that are exactly one complete datum
    for s1, (s2, why, o1, o2) in sorted(poison.items()):
        sig = "read-after-read: a port containing %s changes what a later fresh port reads" % json.dumps(s1)
        if s1 not in single and why == "differs":
            sig = ("read keeps one global reader buffer: text that is not exactly one complete datum (unfinished datum, second datum, "
                   "comment) read from one port leaks into reads from later, unrelated ports")
        rep.violation(sig,
                      {"first": s1, "then": s2, "alone": o1, "after": o2, "why": why}, {"kind": "readhist", "s1": s1, "s2": s2})
    # (b) datums
    dex = datum_exprs(a.tier) + ladder_exprs(a.tier)
    dres = common.pmap(work_datums, common.chunks(list(enumerate(dex)), 400))
    n_dat = sum(r[0] for r in dres)
    doutcomes = set()
    for r in dres:
        doutcomes.update(r[2])
    allf = [f for r in dres for f in r[1]]
    leaf_fail = set(f[0] for f in allf if f[0] in LEAVES)
    # a compound that contains a leaf failing on its own is explained by that leaf (minimal cases only)
    todo = [f for f in allf if f[0] in LEAVES or not any(lf in f[0] for lf in leaf_fail)]
    for m, cls, (e, why, v) in shrink_all(todo, _shrink_datum, lambda f: f[0]):
        sig = "write/read %s => %s" % (m, cls)
        if m.startswith("(string->symbol \"") and v and cls.startswith("written"):
            name = json.loads(m[len("(string->symbol "):-1])
            if v == "(lst #f (str %s))" % json.dumps(name, ensure_ascii=False):
                # one mechanism, many inputs: the writer emitted exactly the bare name
                sig = "write emits a symbol's name bare (no |..| quoting), so names that are not plain identifiers do not read back"
        rep.violation(sig, {"minimal": m, "found_as": e, "why": why, "got": v}, {"kind": "datum", "expr": m})
    # (d) literals against the escape rules
    lits = literal_cases(a.tier)
    lres = common.pmap(work_literals, common.chunks(lits, 3000))
    n_lit = sum(r[0] for r in lres)
    lf = sorted([f for r in lres for f in r[1]], key=lambda f: (len(f[0]), f[0]))
    lkept = []
    for e, w, got in lf:
        if len(lkept) >= 12:
            break
        lkept.append(e)
        rep.violation("literal %s denotes %s, read as %s" % (e, w, got), {"expr": e, "want": w, "got": got}, {"kind": "literal", "expr": e, "want": w})
    # (e) histories through the number-literal table
    nh = numtable_histories(a.tier)
    nres = common.pmap(work_numtable, common.chunks(nh, 8))
    n_numt = sum(r[0] for r in nres)
    nseen = set()
    for sp, how, fresh, cls, detail in sorted([f for r in nres for f in r[1]], key=lambda f: (f[0], f[1], len(f[2]))):
        if (sp, how, cls) in nseen:
            continue
        nseen.add((sp, how, cls))
        rep.violation("number literal %s (%s) after literals that are new to the process => %s" % (sp, how, cls), {"special": sp, "how": how, "fresh": fresh, "detail": detail},
                      {"kind": "numtable", "special": sp, "how": how, "fresh": fresh})
    # (c) programs
    progs = ZOO + small_programs(a.tier)
    pres = common.pmap(work_roundtrip, common.chunks(progs, 500))
    n_prog = sum(r["n"] for r in pres)
    n_parsed = sum(r["parsed"] for r in pres)
    for m, cls, f in shrink_all([f for r in pres for f in r["fails"]], _shrink_prog, lambda f: f["s"]):
        rep.violation("print/parse %s => %s" % (m, cls), dict(f, minimal=m), {"kind": "roundtrip", "s": m})
    cov = {"evaluations": n_parse + n_read + n_dat + n_prog + n_hist + n_lit + n_numt, "number_table_histories": n_numt, "literals": n_lit, "read_history_pairs": n_hist,
           "distinct_nontrivial": n_ok + n_dat + n_parsed,
           "rule": "(a) every string of length <= %d over a %d-character alphabet and every token sequence of length <= %d (joined with and "
                   "without spaces) from a %d-token menu through Parser::parse (no panic, every AST/error span inside the text on char "
                   "boundaries); every string of length <= %d through runtime (read port); (b) every datum built from %d leaves under %d "
                   "compound shapes: (equal? d (read (write d))); (c) parse/print/parse up to spans for %d programs (zoo + all core terms of "
                   "bounded size). non-trivial = strings that parse to at least one datum, all datums, all programs that parse; distinct by text"
                   % (maxlen, len(CHARS), tok_len, len(TOKENS), rl, len(LEAVES), len(COMPOUND), n_prog),
           "samples": [nth(reqs[-1], 12345 % (len(TOKENS) ** tok_len)), strs[777], dex[200], dex[-1], progs[5], progs[-1]],
           "exhaustive": True, "parser_strings": n_parse, "parser_ok": n_ok, "parser_err": n_err, "runtime_read_strings": n_read,
           "runtime_read_outcomes": sorted(read_kinds), "datums": n_dat, "datum_outcomes": sorted(doutcomes),
           "programs": n_prog, "programs_parsed": n_parsed}
    return rep.finish("exploration", cov, assumptions=[
        "AST spans are read from the Debug rendering of the tree (fields span/location)",
        "hash maps/sets, procedures, ports have no external representation and are outside (b)",
        "NaN is outside (b) (equal? on NaN is not pinned down)"])


if __name__ == "__main__":
    sys.exit(main())
