"""C15 – world-stopping operations (full collection, global define / assign) see other threads only while they are stopped, and their
result is seen by every thread afterwards.
Deciding method: stateless depth-first exploration of ALL schedules with at most b preemptions of small multi-threaded drivers running on
the real VM under a controlled scheduler (hook H7: a gate at every instruction dispatch, every step of entering / leaving a safepoint,
every step of stopping, scanning and resuming the world, thread start / exit / spawn).  Drivers: 2 and 3 script threads, each a short list
of operations from {assign the global g, read g, full collection, allocate, call a primitive, loop k instructions, define a global}.
Oracle per schedule: (i) no thread passes an instruction-dispatch or safepoint-left gate while another thread is between scan-begin and
scan-end on its state (its stack / global table being read or replaced); (ii) the values read by all threads and the final value of g are
a result of some sequentially consistent interleaving of the script-level reads and writes (in particular: monotone per thread, and the
engine thread sees the last assignment after joining).  Deadlocks and livelocks met on the way belong to C16 and are only counted here."""
import sys, json
from . import common, schedx

P = "C15"


R, S1, S2, GC, AL, PR, L2 = ("read",), ("set", 1), ("set", 2), ("gc",), ("alloc",), ("prim",), ("loop", 2)
DRIVERS2 = [
    ([R, R], [S1, R]),
    ([R, R], [GC]),
    ([R, R], [AL, GC]),
    ([GC, R], [S1, R]),
    ([GC, R], [AL, R]),
    ([AL, R], [S1]),
    ([PR, R], [S1, R]),
    ([L2, R], [S1]),
    ([S2, R], [R, R]),
    ([S2, R], [GC, R]),
    ([S2, R], [L2, R]),
    ([S2, R], [PR, R]),
    ([S2, R], []),
    ([R], [("define", 5), ("readh", 1)]),
    ([GC], [GC]),
    ([AL, AL], [AL, AL]),
]
SEND, RECV = ("send",), ("recv",)
# (threads that lived and were joined before, threads of the experiment): lifetimes that do not overlap, and an ordering by a channel so that
# "afterwards" in the property is observable (the receiver must see what the sender assigned before sending)
DRIVERS_PHASED = [
    ([[]], ([S2, SEND], [RECV, R])),
    ([[S1]], ([S2, SEND], [RECV, R])),
    ([[]], ([RECV, R], [S1, SEND])),
    ([[R]], ([S2, SEND, R], [RECV, R, S1])),
    ([[], []], ([GC, S2, SEND], [RECV, R])),
]
DRIVERS3 = [
    ([R], [S1], [GC]),
    ([GC], [S1, R], [R, R]),
    ([R, R], [S1], [R, R]),
    ([AL], [GC], [S1, R]),
    ([PR, R], [GC], [L2, S1]),
]


# values that are only referenced by an operation in progress while another thread collects: the top-level procedures are compiled natively
# (no captures), the lambdas are interpreted
INFLIGHT_PRE = ("(define gbox #f) (define gvec #f) (define (put! v) (set! gbox (box v))) (define (putv! v) (set! gvec (vector v v))) "
                "(define (mk v) (box (box v))) (define (put2! v) (set! gbox (mk v)))")
INFLIGHT = [
    ("inflight/set-box-native || gc", "(let* ((t1 (spawn-native-thread (lambda () (put! 7) (unbox gbox))))) (#%gc-collect) (list (thread-join! t1) (unbox gbox)))", "(lst (i 7) (i 7))"),
    ("inflight/set-vector-native || gc", "(let* ((t1 (spawn-native-thread (lambda () (putv! 7) (vector-ref gvec 1))))) (#%gc-collect) (list (thread-join! t1) (vector-ref gvec 0)))", "(lst (i 7) (i 7))"),
    ("inflight/set-nested-native || gc", "(let* ((t1 (spawn-native-thread (lambda () (put2! 7) (unbox (unbox gbox)))))) (#%gc-collect) (list (thread-join! t1) (unbox (unbox gbox))))", "(lst (i 7) (i 7))"),
    ("inflight/set-box-interpreted || gc", "(let* ((t1 (spawn-native-thread (lambda () (set! gbox (box 7)) (unbox gbox))))) (#%gc-collect) (list (thread-join! t1) (unbox gbox)))", "(lst (i 7) (i 7))"),
    ("inflight/box-of-box || gc", "(let* ((t1 (spawn-native-thread (lambda () (let ((b (box (box (box 7))))) (unbox (unbox (unbox b)))))))) (#%gc-collect) (list (thread-join! t1)))", "(lst (i 7))"),
    ("inflight/gc || set-box-native", "(let* ((t1 (spawn-native-thread (lambda () (#%gc-collect) 'a)))) (put! 7) (list (thread-join! t1) (unbox gbox)))", "(lst (sym \"a\") (i 7))"),
]


C15PRE = schedx.PRE + " " + INFLIGHT_PRE


def judge(reference):
    def j(val, rep, ex):
        out = []
        for v in rep.get("violations", [])[:1]:
            out.append(("scan-overlap", "thread %d passes %s while its state is being inspected or replaced by another thread" % (v["thread"], v["gate"])))
        if rep.get("freed_slot_uses", 0) > 0:
            out.append(("use-of-reclaimed-storage", "a value that was in flight (not on the stack) while another thread collected was reclaimed: %d accesses to a freed slot" % rep["freed_slot_uses"]))
        if rep["outcome"] == "completed" and val is not None:
            if val.startswith("ERR:") or val.startswith("PANIC:"):
                out.append(("error", val[:140]))
            elif reference is not None and val not in reference:
                out.append(("inconsistent-result", "%s is not the result of any interleaving of the reads and writes" % val))
        return out
    return j


def root_items(tier):
    items = []
    b2 = 2
    b3 = 2 if tier == "thorough" else 1
    for d in DRIVERS2:
        items.append((list(d), b2))
    for d in DRIVERS3:
        items.append((list(d), b3))
    for earlier, d in DRIVERS_PHASED:
        items.append((["phased", list(earlier)] + list(d), b2))
    for k in range(len(INFLIGHT)):
        items.append((["inflight", k], b2))
    return items


def program_and_reference(threads):
    if threads and threads[0] == "inflight":
        name, prog, want = INFLIGHT[threads[1]]
        return prog, {want}
    if threads and threads[0] == "phased":
        earlier, ths = threads[1], threads[2:]
        return schedx.driver_program_phases(earlier, ths), schedx.reference_outcomes_phases(earlier, ths)
    prog = schedx.driver_program(threads)
    ref = schedx.reference_outcomes(threads) if not any(o[0] in ("define", "readh") for t in threads for o in t) else None
    return prog, ref


def work_root(item):
    threads, bound = item
    prog, _ = program_and_reference(threads)
    val, rep, ex = schedx.run_schedule(C15PRE, prog, [])
    if rep is None:
        return (item, None, "no report: exit=%s" % ex)
    kids = schedx.children(rep["points"], 0, bound)
    return (item, kids, None)


def work_sub(item):
    threads, bound, roots, include_root = item
    prog, ref = program_and_reference(threads)
    tot = {"runs": 0, "outcomes": {}, "failures": [], "divergent": 0, "capped": False, "maxpoints": 0, "deadlocks": 0}
    todo = ([[]] if include_root else []) + roots
    for root in todo:
        if root == [] and include_root:
            # the default schedule alone (its alternatives are the other roots)
            val, rep, ex = schedx.run_schedule(C15PRE, prog, [])
            res = {"runs": 1, "outcomes": {str(val): 1}, "failures": [([], c, d) for c, d in (judge(ref)(val, rep, ex) if rep else [("machinery", "no report")])], "divergent": 0,
                   "capped": False, "maxpoints": len(rep["points"]) if rep else 0}
            if rep and rep["outcome"] != "completed":
                tot["deadlocks"] += 1
        else:
            cnt = {"n": 0}

            def jj(val, rep, ex, _j=judge(ref)):
                if rep["outcome"] != "completed":
                    cnt["n"] += 1
                return _j(val, rep, ex)
            res = schedx.explore_subtree(C15PRE, prog, root, bound, judge=jj, maxruns=6000)
            tot["deadlocks"] += cnt["n"]
        tot["runs"] += res["runs"]
        for k, v in res["outcomes"].items():
            tot["outcomes"][k] = tot["outcomes"].get(k, 0) + v
        tot["failures"] += res["failures"]
        tot["divergent"] += res["divergent"]
        tot["capped"] = tot["capped"] or res["capped"]
        tot["maxpoints"] = max(tot["maxpoints"], res["maxpoints"])
    return (threads, bound, tot)


def preemptions(prefix):
    return len(prefix)


def main(argv=None):
    a = common.parse_args(argv)
    if a.replay:
        return common.replay_eval(a.replay)
    common.build()
    rep = common.Reporter(P, a.tier)
    roots = common.pmap(work_root, root_items(a.tier))
    items = []
    for (threads, bound), kids, err in roots:
        if err:
            rep.violation("machinery :: %s :: %s" % (json.dumps(threads), err), {"driver": threads, "error": err}, {"case": {"steps": [C15PRE, program_and_reference(threads)[0]]}, "env": None})
            continue
        parts = common.split_round_robin(kids, 6) or [[]]
        for i, part in enumerate(parts):
            items.append((threads, bound, part, i == 0))
    res = common.pmap(work_sub, items)
    per = {}
    for threads, bound, tot in res:
        key = json.dumps(threads)
        d = per.setdefault(key, {"threads": threads, "bound": bound, "runs": 0, "outcomes": {}, "failures": [], "divergent": 0, "capped": False, "maxpoints": 0, "deadlocks": 0})
        d["runs"] += tot["runs"]
        for k, v in tot["outcomes"].items():
            d["outcomes"][k] = d["outcomes"].get(k, 0) + v
        d["failures"] += tot["failures"]
        d["divergent"] += tot["divergent"]
        d["capped"] = d["capped"] or tot["capped"]
        d["maxpoints"] = max(d["maxpoints"], tot["maxpoints"])
        d["deadlocks"] += tot["deadlocks"]
    total_runs = 0
    table = {}
    for key, d in per.items():
        total_runs += d["runs"]
        ths = d["threads"]
        if ths and ths[0] == "inflight":
            name = INFLIGHT[ths[1]][0]
        elif ths and ths[0] == "phased":
            name = "after " + " ; ".join(" ".join("/".join(str(x) for x in o) for o in t) or "-" for t in ths[1]) + " => " + " || ".join(" ".join("/".join(str(x) for x in o) for o in t) or "-" for t in ths[2:])
        else:
            name = " || ".join(" ".join("/".join(str(x) for x in o) for o in t) or "-" for t in ths)
        table[name] = {"schedules": d["runs"], "bound": d["bound"], "distinct_results": len(d["outcomes"]), "max_scheduling_points": d["maxpoints"], "divergent_replays": d["divergent"],
                       "capped": d["capped"], "deadlocked_schedules(C16)": d["deadlocks"]}
        by_class = {}
        for prefix, cls, detail in d["failures"]:
            cur = by_class.get(cls)
            if cur is None or len(prefix) < len(cur[0]):
                by_class[cls] = (prefix, detail)
        for cls, (prefix, detail) in sorted(by_class.items()):
            n = sum(1 for f in d["failures"] if f[1] == cls)
            rep.violation("%s :: threads %s :: %s" % (cls, name, detail if cls != "inconsistent-result" else "a result that no interleaving of the reads and writes produces"),
                          {"driver": d["threads"], "class": cls, "detail": detail, "schedules_failing": n, "schedules_explored": d["runs"], "shortest_choice_prefix": prefix},
                          {"case": {"steps": [C15PRE, {"op": "sched_arm", "choices": prefix, "report_path": "/dev/null"}, program_and_reference(d["threads"])[0], {"op": "sched_report"}]}, "env": None})
    cov = {"evaluations": total_runs, "distinct_nontrivial": total_runs,
           "rule": "every schedule with at most 2 preemptions (3-thread drivers: %d) of %d two-thread, %d three-thread, %d phased drivers (threads that exited before the others were spawned; ordering through a channel) and %d in-flight drivers (a freshly allocated value only held by an operation in progress while another thread collects; use-of-reclaimed-slot counter of hook H4); a scheduling point is every gate of hook H7 "
                   "reached by the running thread; each schedule re-executes the driver on a freshly forked engine" % (2 if a.tier == "thorough" else 1, len(DRIVERS2), len(DRIVERS3), len(DRIVERS_PHASED), len(INFLIGHT)),
           "samples": [schedx.driver_program(list(DRIVERS2[0])), schedx.driver_program(list(DRIVERS3[0])), schedx.driver_program_phases(*[list(x) for x in DRIVERS_PHASED[1]])], "exhaustive": not any(t["capped"] for t in table.values()), "drivers": table}
    return rep.finish("model_checking", cov, assumptions=["interleavings are sequentially consistent at gate granularity: weak-memory reorderings of the relaxed flag accesses are not explored",
                                                           "a thread that does not reach its next gate within 25 ms is treated as blocked in native code"])


if __name__ == "__main__":
    sys.exit(main())
