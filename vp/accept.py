"""maintenance tool (never run by a check): python3 -m vp.accept <ID> [note] – after triage, record every violation that the LAST run of
the check wrote to replays/<ID>/ as a known finding (older replay files, e.g. left by a run against a seeded tree, are ignored)."""
import sys, json, glob, os
from .common import VERIF
pid = sys.argv[1]; note = sys.argv[2] if len(sys.argv) > 2 else ""
p = os.path.join(VERIF, "known_findings.json")
d = json.load(open(p))
have = {(f["property"], f["signature"]) for f in d["findings"]}
n = 0
ev = os.path.join(VERIF, "evidence", pid + ".json")
t_ev = os.path.getmtime(ev)
wall = json.load(open(ev)).get("wall_s", 0)
for f in sorted(glob.glob(os.path.join(VERIF, "replays", pid, "*.json"))):
    if not (t_ev - 120 <= os.path.getmtime(f) <= t_ev + 5):
        continue  # not written by the last run
    r = json.load(open(f))
    if (pid, r["signature"]) in have:
        continue
    w = r["what"]
    desc = (note + " " if note else "") + r["signature"]
    if isinstance(w, dict) and w.get("detail"):
        desc += " — " + str(w["detail"])[:160]
    d["findings"].append({"property": pid, "status": "known", "signature": r["signature"], "what_fails": desc})
    n += 1
json.dump(d, open(p, "w"), indent=1, ensure_ascii=False)
print("added", n)
