"""C17 – a running script can always be interrupted, and the engine is usable afterwards.
Enumerated: long-running program shapes (self / mutual tail loops, named let, do, non-tail recursion in a loop, loops driven by map /
foldl / for-each / filter / sort / transduce callbacks, an endless loop inside such a callback, in an error handler, in dynamic-wind
before / body / after thunks, continuation re-entry loops, apply loops, loops that call one primitive, allocate (with and without a
forced full collection at every allocation), assign or define a global, sleep in a primitive) x native code generation on / off x
EVERY arrival point of the interrupt request at gate granularity: the request is issued from inside the hook callback (H7) when the
engine thread passes its k-th gate after arming, for every k in 1..K, whatever kind of gate that is (instruction dispatch, safepoint
publish / finished / retract / left, stop / scan / resume of the world, ...).  Each shape is first run in a bounded variant so that hot
code is compiled natively before arming.  A delayed request from a watchdog thread covers code that passes no gates.
Oracle: Engine::run returns an error within B further instruction dispatches (hard wall-clock limit per case = `hang`), and after
resume() a probe program and the shape's bounded variant give their answers and both VM stacks are empty."""
import sys, json, os
from . import common

P = "C17"
B = 64          # further instruction dispatches allowed after the request
HANG_MS = 4000

# (name, definitions, bounded warm-up call with its expected value, endless call)
SHAPES = [
    ("self-tail", "(define (lp i n) (if (= i n) 'done (lp (+ i 1) n)))", "(lp 0 3000)", "(lp 0 -1)"),
    ("mutual-tail", "(define (ping i n) (if (= i n) 'done (pong (+ i 1) n))) (define (pong i n) (ping i n))", "(ping 0 3000)", "(ping 0 -1)"),
    ("named-let", "(define (run n) (let loop ((i 0)) (if (= i n) 'done (loop (+ i 1)))))", "(run 3000)", "(run -1)"),
    ("do-loop", "(define (run n) (do ((i 0 (+ i 1))) ((= i n) 'done)))", "(run 3000)", "(run -1)"),
    ("non-tail-recursion", "(define (r k) (if (= k 0) 0 (+ 1 (r (- k 1))))) (define (run n) (let loop ((i 0)) (if (= i n) 'done (begin (r 50) (loop (+ i 1))))))", "(run 200)", "(run -1)"),
    ("deepening-recursion", "(define (r k n) (if (= k n) 0 (+ 1 (r (+ k 1) n)))) (define (run n) (if (= n -1) (r 0 -1) (begin (r 0 n) 'done)))", "(run 2000)", "(run -1)"),
    ("map-callback", "(define xs (range 0 20)) (define (run n) (let loop ((i 0)) (if (= i n) 'done (begin (map (lambda (x) (+ x i)) xs) (loop (+ i 1))))))", "(run 300)", "(run -1)"),
    ("foldl-callback", "(define xs (range 0 20)) (define (run n) (let loop ((i 0)) (if (= i n) 'done (begin (foldl (lambda (x acc) (+ x acc)) 0 xs) (loop (+ i 1))))))", "(run 300)", "(run -1)"),
    ("for-each-callback", "(define xs (range 0 20)) (define (run n) (let loop ((i 0)) (if (= i n) 'done (begin (for-each (lambda (x) (+ x i)) xs) (loop (+ i 1))))))", "(run 300)", "(run -1)"),
    ("filter-callback", "(define xs (range 0 20)) (define (run n) (let loop ((i 0)) (if (= i n) 'done (begin (filter (lambda (x) (odd? x)) xs) (loop (+ i 1))))))", "(run 300)", "(run -1)"),
    ("sort-callback", "(define xs (list 5 3 9 1 7 2 8)) (define (run n) (let loop ((i 0)) (if (= i n) 'done (begin (sort xs (lambda (a b) (< a b))) (loop (+ i 1))))))", "(run 300)", "(run -1)"),
    ("transduce-callback", "(define xs (range 0 20)) (define (run n) (let loop ((i 0)) (if (= i n) 'done (begin (transduce xs (mapping (lambda (x) (+ x 1))) (filtering odd?) (into-list)) (loop (+ i 1))))))", "(run 300)", "(run -1)"),
    ("endless-inside-map", "(define (spin i n) (if (= i n) 'done (spin (+ i 1) n))) (define (run n) (car (map (lambda (x) (spin 0 n)) (list 1))))", "(run 3000)", "(run -1)"),
    ("endless-inside-foldl", "(define (spin i n) (if (= i n) 'done (spin (+ i 1) n))) (define (run n) (foldl (lambda (x acc) (spin 0 n)) 0 (list 1)))", "(run 3000)", "(run -1)"),
    ("endless-inside-transduce", "(define (spin i n) (if (= i n) 'done (spin (+ i 1) n))) (define (run n) (car (transduce (list 1) (mapping (lambda (x) (spin 0 n))) (into-list))))", "(run 3000)", "(run -1)"),
    ("endless-inside-sort", "(define (spin i n) (if (= i n) #t (spin (+ i 1) n))) (define (run n) (begin (sort (list 2 1) (lambda (a b) (spin 0 n))) 'done))", "(run 3000)", "(run -1)"),
    ("endless-inside-hash-map-callback", "(define (spin i n) (if (= i n) 'done (spin (+ i 1) n))) (define (run n) (begin (transduce (hash 'a 1) (mapping (lambda (kv) (spin 0 n))) (into-list)) 'done))", "(run 3000)", "(run -1)"),
    ("endless-in-handler", "(define (spin i n) (if (= i n) 'done (spin (+ i 1) n))) (define (run n) (with-handler (lambda (e) (spin 0 n)) (error \"x\")))", "(run 3000)", "(run -1)"),
    ("endless-in-wind-before", "(define (spin i n) (if (= i n) 'done (spin (+ i 1) n))) (define (run n) (dynamic-wind (lambda () (spin 0 n)) (lambda () 'done) (lambda () 1)))", "(run 3000)", "(run -1)"),
    ("endless-in-wind-body", "(define (spin i n) (if (= i n) 'done (spin (+ i 1) n))) (define (run n) (dynamic-wind (lambda () 1) (lambda () (spin 0 n)) (lambda () 1)))", "(run 3000)", "(run -1)"),
    ("endless-in-wind-after", "(define (spin i n) (if (= i n) 'done (spin (+ i 1) n))) (define (run n) (begin (dynamic-wind (lambda () 1) (lambda () 1) (lambda () (spin 0 n))) 'done))", "(run 3000)", "(run -1)"),
    ("continuation-reentry", "(define cnt (box 0)) (define (run n) (set-box! cnt 0) (let ((k #f)) (call/cc (lambda (c) (set! k c))) (set-box! cnt (+ (unbox cnt) 1)) (if (= (unbox cnt) n) 'done (k 0))))", "(run 300)", "(run -1)"),
    ("generator", "(define (run n) (define ret #f) (define (gen) (let loop ((i 0)) (call/cc (lambda (next) (ret (cons i next)))) (loop (+ i 1)))) "
                  "(let loop ((r (call/cc (lambda (c) (set! ret c) (gen))))) (if (= (car r) n) 'done (loop (call/cc (lambda (c) (set! ret c) ((cdr r) 0)))))))", "(run 100)", "(run -1)"),
    ("apply-loop", "(define (lp i n) (if (= i n) 'done (apply lp (list (+ i 1) n))))", "(lp 0 3000)", "(lp 0 -1)"),
    ("higher-order-repeat", "(define (repeat f i n) (if (= i n) 'done (begin (f) (repeat f (+ i 1) n))))", "(repeat (lambda () 1) 0 3000)", "(repeat (lambda () 1) 0 -1)"),
    ("one-primitive", "(define l (list 1 2)) (define (lp i n) (if (= i n) 'done (begin (car l) (lp (+ i 1) n))))", "(lp 0 3000)", "(lp 0 -1)"),
    ("string-primitives", "(define (lp i n) (if (= i n) 'done (begin (string-append \"a\" (number->string i)) (lp (+ i 1) n))))", "(lp 0 2000)", "(lp 0 -1)"),
    ("hash-primitives", "(define (lp i n h) (if (= i n) 'done (lp (+ i 1) n (hash-insert h (modulo i 8) i))))", "(lp 0 2000 (hash))", "(lp 0 -1 (hash))"),
    ("allocating-boxes", "(define (lp i n) (if (= i n) 'done (begin (box i) (lp (+ i 1) n))))", "(lp 0 3000)", "(lp 0 -1)"),
    ("allocating-vectors", "(define (lp i n) (if (= i n) 'done (begin (vector i i) (lp (+ i 1) n))))", "(lp 0 3000)", "(lp 0 -1)"),
    ("explicit-collections", "(define (lp i n) (if (= i n) 'done (begin (#%gc-collect) (lp (+ i 1) n))))", "(lp 0 3)", "(lp 0 -1)"),
    ("assign-global", "(define g 0) (define (lp i n) (if (= i n) 'done (begin (set! g i) (lp (+ i 1) n))))", "(lp 0 300)", "(lp 0 -1)"),
    ("eval-define-global", "(define (lp i n) (if (= i n) 'done (begin (eval '(define gg 1)) (lp (+ i 1) n))))", "(lp 0 5)", "(lp 0 -1)"),
    ("mutable-local", "(define (run n) (let ((c 0)) (let loop () (if (= c n) 'done (begin (set! c (+ c 1)) (loop))))))", "(run 3000)", "(run -1)"),
    ("sleep-in-primitive", "(define (lp i n) (if (= i n) 'done (begin (time/sleep-ms 1) (lp (+ i 1) n))))", "(lp 0 3)", "(lp 0 -1)"),
    ("thunk-stream", "(define (ints i) (cons i (lambda () (ints (+ i 1))))) (define (run n) (let loop ((s (ints 0))) (if (= (car s) n) 'done (loop ((cdr s))))))", "(run 300)", "(run -1)"),
    ("struct-and-vector-mutation", "(struct Cell (v) #:mutable) (define c (Cell 0)) (define v (vector 0)) (define (lp i n) (if (= i n) 'done (begin (set-Cell-v! c i) (vector-set! v 0 i) (lp (+ i 1) n))))",
     "(lp 0 3000)", "(lp 0 -1)"),
]
CONFIGS = [("jit-on", None), ("jit-off", {"STEEL_JIT": "false"})]
GC_SHAPES = ("allocating-boxes", "allocating-vectors")


MODDIR = os.path.join(common.VERIF, ".work", "c17mod")


def module_file(shape):
    import re
    name, defs, warm, endless = shape
    names = re.findall(r"\(define \(([^ )]+)", defs) + re.findall(r"\(define ([^ (]+) ", defs) + re.findall(r"\(struct ([^ ]+) ", defs)
    os.makedirs(MODDIR, exist_ok=True)
    path = os.path.join(MODDIR, name + ".scm")
    if not os.path.exists(path):
        with open(path, "w") as fh:
            fh.write("(provide %s)\n%s\n" % (" ".join(dict.fromkeys(names)), defs))
    return path


BIG_UNIT = " ".join("(define (zz-filler-%d x) (if (< x %d) (+ x %d) (list x %d)))" % (i, i, i, i) for i in range(600))


def case_steps(shape, k, timed_ms, gcplan, unit="separate"):
    name, defs, warm, endless = shape
    if unit == "same-unit":
        steps = [defs + " " + warm, "'done"]
    elif unit == "module":
        steps = ["(require \"%s\")" % module_file(shape), warm]
    else:
        steps = [defs, warm]
    if unit == "compile-phase":
        # the request arrives while Engine::run is still compiling the unit (600 definitions in front of the endless expression)
        endless = BIG_UNIT + " " + endless
    if gcplan:
        steps.append({"op": "gcplan", "on": True})
    steps += [{"op": "int_plan", "k": k, "timed_ms": timed_ms}, endless, {"op": "int_report"}]
    if gcplan:
        steps.append({"op": "gcplan", "on": False})
    steps += [{"op": "int_resume"}, "(+ 1 2)", warm, {"op": "depths"}]
    return steps


def judge(shape, r, gcplan, unit="separate"):
    """-> (class, detail) or None"""
    off = 1 if gcplan else 0
    if r["exit"] != "normal":
        lm = str(r.get("last_mark"))
        if r["exit"] == "timeout":
            if lm == "777003":
                return ("hang", "the evaluation did not stop within %d ms of wall-clock time after the request" % HANG_MS)
            if lm == "777001":
                return ("no-gates", "the chosen arrival gate was never reached (code that passes no gates): only the delayed request applies")
            return ("machinery", "timeout before arming")
        return ("crash", "engine died: %s" % r["exit"])
    st = r["steps"]
    if st[1]["s"] != "ok" or not st[1]["v"] or st[1]["v"][-1] != '(sym "done")':
        return ("machinery", "warm-up run failed: %s" % (st[1].get("m") or st[1].get("v")))
    run = st[3 + off]
    rep = st[4 + off]["v"][0]
    if run["s"] == "panic":
        return ("panic", run.get("m", "")[:100])
    if not rep["injected"]:
        return ("machinery", "request was never issued (%d gates seen)" % rep["gates_seen"])
    if run["s"] != "err":
        return ("not-interrupted", "the evaluation returned %s although an interrupt was requested" % (run.get("v") or ["?"])[-1][:60])
    if "nterrupt" not in run.get("m", ""):
        return ("other-error", "stopped with a different error: %s" % run.get("m", "")[:100])
    if not rep["timed"] and rep["dispatch_after"] > B:
        return ("late", "stopped only after %d further instruction dispatches" % rep["dispatch_after"])
    if rep["timed"] and rep["latency_us"] > 1000000 and unit != "compile-phase":
        return ("late", "stopped %d ms after the request" % (rep["latency_us"] // 1000))
    base = 5 + off + (1 if gcplan else 0)
    probe, again, depths = st[base + 1], st[base + 2], st[base + 3]
    if probe["s"] != "ok" or probe["v"][-1] != "(i 3)":
        return ("unusable-after-resume", "probe (+ 1 2) gave %s" % (probe.get("v") or [probe.get("m", "")])[-1][:80])
    if again["s"] != "ok" or again["v"][-1] != '(sym "done")':
        return ("unusable-after-resume", "the bounded run gave %s after resume" % (again.get("v") or [again.get("m", "")])[-1][:80])
    if depths.get("v") != [0, 0]:
        return ("residue", "VM stacks not empty after the interrupted evaluation: %s" % depths.get("v"))
    return None


def work(item):
    si, cfgname, env, ks, gcplan, unit = item
    shape = SHAPES[si]
    e = dict(env or {})
    if gcplan:
        e["STEEL_VERIF_GC"] = "every"
    out = []
    hangs = 0
    n = 0
    nogates = False
    kinds = {}
    for k in ks:
        timed = 0 if k > 0 else (8 if unit == "compile-phase" else 60)
        r = common.run_cases([{"id": 0, "steps": case_steps(shape, k, timed, gcplan, unit)}], env=e or None, batch=1, timeout_ms=HANG_MS)[0]
        n += 1
        if unit == "module" and r["exit"] == "normal" and r["steps"] and r["steps"][0]["s"] != "ok":
            break  # the shape's definitions cannot live in a module (eval, host functions): variant not applicable
        j = judge(shape, r, gcplan, unit)
        if r["exit"] == "normal":
            try:
                rep = r["steps"][4 + (1 if gcplan else 0)]["v"][0]
                kinds[rep["kind"]] = kinds.get(rep["kind"], 0) + 1
                if unit == "compile-phase" and rep["injected"] and rep["at"] == 0:
                    kinds["before-first-gate"] = kinds.get("before-first-gate", 0) + 1
            except Exception:
                pass
        if j and j[0] == "no-gates":
            nogates = True
            break  # larger ordinals cannot be reached either
        if j:
            out.append((k, j[0], j[1]))
            if j[0] in ("hang", "machinery"):
                hangs += 1
                if hangs >= 4:
                    break  # every further arrival point of this shape costs the full wall-clock limit: stop, the cap is reported
    return (si, cfgname, gcplan, n, len(ks), out, kinds, unit)


def main(argv=None):
    a = common.parse_args(argv)
    if a.replay:
        return common.replay_eval(a.replay)
    common.build()
    rep = common.Reporter(P, a.tier)
    K = 1500 if a.tier == "thorough" else 150
    items = []
    for si, sh in enumerate(SHAPES):
        for cfgname, env in CONFIGS:
            ks = list(range(1, K + 1))
            # split the arrival points of one shape over several workers, keeping ascending order inside each
            parts = 4 if a.tier == "thorough" else 2
            for p in range(parts):
                items.append((si, cfgname, env, ks[p::parts] + ([0] if p == 0 else []), False, "separate"))
            if sh[0] in GC_SHAPES:
                for p in range(parts):
                    items.append((si, cfgname, env, ks[p::parts], True, "separate"))
            # the definitions compiled in the same unit as their first call / in a required module: the delayed request first (code
            # compiled to a native loop may pass no gates at all), then the first arrival points
            for unit in ("same-unit", "module"):
                items.append((si, cfgname, env, [0] + list(range(1, (K // 5 if a.tier == "thorough" else 12) + 1)), False, unit))
            # a request that arrives while the evaluation is still being compiled
            items.append((si, cfgname, env, [0], False, "compile-phase"))
    import shutil
    shutil.rmtree(MODDIR, ignore_errors=True)
    for sh in SHAPES:
        module_file(sh)
    res = common.pmap(work, items)
    total = sum(r[3] for r in res)
    planned = sum(r[4] for r in res)
    kinds = {}
    table = {}
    for si, cfgname, gcplan, n, m, out, kd, unit in res:
        for kk, c in kd.items():
            kinds[kk] = kinds.get(kk, 0) + c
        key = "%s/%s%s%s" % (SHAPES[si][0], cfgname, "/gc-every-allocation" if gcplan else "", "" if unit == "separate" else "/" + unit)
        table.setdefault(key, []).extend(out)
    for key in sorted(table):
        fails = sorted(table[key])
        by_class = {}
        for k, cls, detail in fails:
            by_class.setdefault(cls, []).append((k, detail))
        for cls, lst in by_class.items():
            k, detail = lst[0]
            si = [i for i, s in enumerate(SHAPES) if s[0] == key.split("/")[0]][0]
            gcplan = "gc-every-allocation" in key
            unit = "same-unit" if key.endswith("/same-unit") else ("module" if key.endswith("/module") else ("compile-phase" if key.endswith("/compile-phase") else "separate"))
            env = dict(CONFIGS[0][1] or {}) if "jit-on" in key else dict(CONFIGS[1][1])
            if gcplan:
                env["STEEL_VERIF_GC"] = "every"
            rep.violation("%s :: %s :: %s" % (key, cls, detail if cls not in ("late",) else detail.split(" after")[0]),
                          {"shape": key, "class": cls, "smallest_arrival_point": k, "arrival_points_failing": [x[0] for x in lst][:50], "detail": detail},
                          {"case": {"steps": case_steps(SHAPES[si], k, 0 if k else 60, gcplan, unit)}, "env": env or None, "timeout_ms": HANG_MS})
    cov = {"evaluations": total, "distinct_nontrivial": total,
           "rule": "%d program shapes x {native code on, off} (+ forced collection at every allocation for the allocating shapes; + a request arriving 8 ms into an evaluation that starts with 600 definitions, i.e. while it is still being compiled; + definitions compiled in the same unit as the first call / in a required module, delayed request and first arrival points) x every arrival point k = 1..%d of the request "
                   "(k-th gate of the engine thread after arming, any gate kind) + one delayed request from a watchdog thread; a shape whose arrival points hang is cut off "
                   "after 4 hangs (planned %d cases, run %d)" % (len(SHAPES), K, planned, total),
           "samples": [SHAPES[0][3], SHAPES[12][1][:120], SHAPES[21][1][:120]], "exhaustive": total == planned, "arrival_gate_kinds": kinds, "bound_dispatches": B, "hang_limit_ms": HANG_MS}
    return rep.finish("exploration", cov, assumptions=["arrival points are gates of hook H7 (instruction dispatch, safepoint and stop-the-world steps); between two gates the engine thread does not "
                                                        "read the request flag, so later arrival inside that interval is equivalent to arrival at its end",
                                                        "long-running primitives that execute no script steps are outside the property's bound"])


if __name__ == "__main__":
    sys.exit(main())
