"""C09 – tail calls run in constant space at any iteration count.
Every loop shape from: call kind (self / mutual 2,3 / via local variable / via parameter / via apply / via a global assigned with
set!) x tail context (if, cond, case, and, or, when, unless, begin, let depth 1..3, let*, letrec, inner named let, internal define,
handler tail, and the tail call placed after a sibling branch that is a sequence: begin / multi-expression cond clause / let body / when) x parameter list (1, 2, 4 fixed, rest) x extras (none, captured variable, assigned captured variable, live temporary).
Oracle: at every iteration the (operand stack, frame stack, native depth) triple observed at each call site equals the one of the
first visit of that site; the result equals the closed form; peak RSS of a 10^6-iteration run stays within a fixed margin of the
10^3 run; non-tail recursion of depth 10^6 ends with an error value (or a result), never with a crash."""
import sys, json
from . import common

P = "C09"
PRE = ("(define vf-sites (box (hash))) (define vf-bad (box 0)) (define vf-visits (box 0)) "
       "(define (vf-max a b) (map (lambda (x y) (if (> x y) x y)) a b)) "
       "(define (vf-le a b) (if (null? a) #t (if (<= (car a) (car b)) (vf-le (cdr a) (cdr b)) #f))) "
       # per call site: (visits, componentwise maximum over the first 8 visits); a later visit above that maximum is growth
       "(define (chk! s) (set-box! vf-visits (+ 1 (unbox vf-visits))) (let ((d (#%verif-stack-depth)) (h (unbox vf-sites))) "
       "(if (hash-contains? h s) (let ((e (hash-ref h s))) (if (< (car e) 8) "
       "(set-box! vf-sites (hash-insert h s (list (+ 1 (car e)) (vf-max d (car (cdr e)))))) "
       "(if (vf-le d (car (cdr e))) #t (set-box! vf-bad (+ 1 (unbox vf-bad)))))) "
       "(set-box! vf-sites (hash-insert h s (list 1 d))))))")

# tail contexts: wrap E (which is in tail position of the wrapper)
CTX = [
    ("plain", "{E}"),
    ("and", "(and #t {E})"), ("or", "(or #f {E})"), ("when", "(when #t {E})"), ("unless", "(unless #f {E})"), ("begin", "(begin 0 {E})"),
    ("cond", "(cond (#f 0) (else {E}))"), ("case", "(case 1 ((2) 0) ((1) {E}) (else 0))"),
    ("let1", "(let ((t1 (+ i 0))) {E})"), ("let2", "(let ((t1 (+ i 0))) (let ((t2 (+ t1 0))) {E}))"),
    ("let3", "(let ((t1 (+ i 0))) (let ((t2 (+ t1 0)) (t3 7)) (let ((t4 (+ t2 t3))) {E})))"),
    ("let*", "(let* ((t1 i) (t2 (+ t1 0))) {E})"), ("letrec", "(letrec ((hh (lambda (x) x))) {E})"),
    ("inner-loop", "(let inner ((j 0)) (if (< j 1) (inner (+ j 1)) {E}))"), ("internal-define", "(let () (define z 1) {E})"),
    ("if-nested", "(if (< i 0) 0 (if (= i -1) 0 {E}))"),
    # the tail call comes AFTER a sibling branch that is a sequence (tail-position bookkeeping must be restored when the sequence ends)
    ("if-sibling-begin", "(if (< i 0) (begin 0 1) {E})"), ("cond-sibling-seq", "(cond ((< i 0) 0 1) ((= i -1) 2 3) (else {E}))"),
    ("if-sibling-let-seq", "(if (< i 0) (let ((q 1)) 0 q) {E})"), ("if-sibling-when", "(if (< i 0) (when #t 0 1) {E})"),
    ("begin-after-inner-seq", "(begin (if (< i 0) (begin 0 1) 0) {E})"),
]
# parameter lists: (params text, how to pass the extra args in the recursive call, initial extra args)
PARAMS = [
    ("1", "", "", ""),
    ("2", " a", " (+ a 1)", " 0"),
    ("4", " a b c", " b c (+ a 1)", " 0 1 2"),
    ("rest", " . r", " i i", ""),
]
EXTRAS = ["none", "captured", "assigned", "live-temp"]


def build(kind, ctx, par, extra, n, probe=True):
    pname, ptxt, pstep, pinit = par
    cname, ctmpl = ctx
    body_extra_pre, body_extra_use = "", ""
    if extra == "captured":
        body_extra_pre = "(define cap (list 1 2 3))"
    elif extra == "assigned":
        body_extra_pre = "(define cnt (box 0))"
    call = {
        "self": "(lp (+ i 1){S})",
        "mutual2": "(lp2 (+ i 1){S})",
        "mutual3": "(lp2 (+ i 1){S})",
        "local-var": "(let ((f lp)) (f (+ i 1){S}))",
        "apply": "(apply lp (list (+ i 1){S}))",
        "global-set": "(nxt (+ i 1){S})",
        "param": "(k k (+ i 1){S})",
    }[kind].replace("{S}", pstep)
    if extra == "live-temp":
        call = "(let ((tmp (list i))) (if (null? tmp) 0 %s))" % call
    if extra == "assigned":
        call = "(begin (set-box! cnt (+ 1 (unbox cnt))) %s)" % call
    if extra == "captured":
        call = "(if (null? cap) 0 %s)" % call
    if probe:
        E = "(if (< i %d) (begin (chk! '{SITE}) %s) i)" % (n, call)
    else:
        # probe-free loop body (a call to the probe changes how the function is compiled): the depth is read once, at loop exit
        E = "(if (< i %d) %s (#%%verif-stack-depth))" % (n, call)
    steps = [PRE]
    if body_extra_pre:
        steps.append(body_extra_pre)
    if kind == "param":
        steps.append("(define (lp k i%s) %s)" % (ptxt, ctmpl.replace("{E}", E.replace("{SITE}", "a"))))
        steps.append("(lp lp 0%s)" % pinit)
    elif kind in ("mutual2", "mutual3"):
        steps.append("(define (lp i%s) %s) (define (lp2 i%s) %s)%s" % (
            ptxt, ctmpl.replace("{E}", E.replace("{SITE}", "a")),
            ptxt, ctmpl.replace("{E}", E.replace("{SITE}", "b").replace("(lp2 ", "(lp3 " if kind == "mutual3" else "(lp ")),
            (" (define (lp3 i%s) %s)" % (ptxt, ctmpl.replace("{E}", E.replace("{SITE}", "c").replace("(lp2 ", "(lp ")))) if kind == "mutual3" else ""))
        steps.append("(lp 0%s)" % pinit)
    elif kind == "global-set":
        steps.append("(define nxt #f)")
        steps.append("(define (lp i%s) %s)" % (ptxt, ctmpl.replace("{E}", E.replace("{SITE}", "a"))))
        steps.append("(set! nxt lp)")
        steps.append("(lp 0%s)" % pinit)
    else:
        steps.append("(define (lp i%s) %s)" % (ptxt, ctmpl.replace("{E}", E.replace("{SITE}", "a"))))
        steps.append("(lp 0%s)" % pinit)
    if probe:
        steps.append("(list (unbox vf-bad) (unbox vf-visits))")
    return steps


SPECIAL = [
    # (name, steps builder(n), expected result of the loop step or None)
    ("do-loop", lambda n: [PRE, "(do ((i 0 (+ i 1)) (s 0 (+ s 1))) ((= i %d) s) (chk! 'a))" % n, "(list (unbox vf-bad) (unbox vf-visits))"]),
    ("named-let", lambda n: [PRE, "(let loop ((i 0) (s 0)) (if (< i %d) (begin (chk! 'a) (loop (+ i 1) (+ s 1))) s))" % n, "(list (unbox vf-bad) (unbox vf-visits))"]),
    ("handler-tail", lambda n: [PRE, "(define (lp i) (if (< i %d) (begin (chk! 'a) (with-handler (lambda (e) (lp (+ i 1))) (error \"x\"))) i))" % n, "(lp 0)",
                                "(list (unbox vf-bad) (unbox vf-visits))"]),
    ("handler-body-tail", lambda n: [PRE, "(define (lp i) (if (< i %d) (begin (chk! 'a) (with-handler (lambda (e) 0) (lp (+ i 1)))) i))" % n, "(lp 0)",
                                     "(list (unbox vf-bad) (unbox vf-visits))"]),
    ("cps", lambda n: [PRE, "(define (lp i k) (if (< i %d) (begin (chk! 'a) (lp (+ i 1) k)) (k i)))" % n, "(lp 0 (lambda (x) x))",
                       "(list (unbox vf-bad) (unbox vf-visits))"]),
    ("while", lambda n: [PRE, "(define i 0)", "(while (< i %d) (chk! 'a) (set! i (+ i 1)))" % n, "(list (unbox vf-bad) (unbox vf-visits))"]),
    ("closure-tail", lambda n: [PRE, "(define (mk) (letrec ((lp (lambda (i) (if (< i %d) (begin (chk! 'a) (lp (+ i 1))) i)))) lp))" % n, "((mk) 0)",
                                "(list (unbox vf-bad) (unbox vf-visits))"]),
]
MODDIR = __import__("os").path.join(common.VERIF, ".work", "c09mod")
MODFILE = __import__("os").path.join(MODDIR, "loops.scm")


def ensure_module():
    import os
    os.makedirs(MODDIR, exist_ok=True)
    with open(MODFILE, "w") as fh:
        fh.write("(provide mod-ev mod-self mod-rest)\n"
                 "(define (mod-ev i n chk) (if (< i n) (begin (chk 'ma) (mod-od (+ i 1) n chk)) i))\n"
                 "(define (mod-od i n chk) (if (< i n) (begin (chk 'mb) (mod-ev (+ i 1) n chk)) i))\n"
                 "(define (mod-self i n chk) (if (< i n) (begin (chk 'mc) (mod-self (+ i 1) n chk)) i))\n"
                 "(define (mod-rest i n chk . r) (if (< i n) (begin (chk 'md) (mod-helper (+ i 1) n chk)) i))\n"
                 "(define (mod-helper i n chk) (if (< i n) (begin (chk 'me) (apply mod-rest (list (+ i 1) n chk 0))) i))\n")


TAIL = "(list (unbox vf-bad) (unbox vf-visits))"
SPECIAL += [
    # a natively compiled pure function and a closure without native code (capturing / variadic / nested lambda) tail-calling each other
    ("pingpong-capturing", lambda n: [PRE, "(define step (let ((stride 1)) (lambda (i) (if (< i %d) (begin (chk! 'b) (drive (+ i stride))) i)))) "
                                           "(define (drive i) (if (< i %d) (begin (chk! 'a) (step (+ i 1))) i))" % (n, n), "(drive 0)", TAIL]),
    ("pingpong-param", lambda n: [PRE, "(define (drive f i) (if (< i %d) (begin (chk! 'a) (f (+ i 1))) i)) "
                                       "(define step (let ((s 1)) (lambda (i) (if (< i %d) (begin (chk! 'b) (drive step (+ i s))) i))))" % (n, n), "(drive step 0)", TAIL]),
    ("pingpong-rest", lambda n: [PRE, "(define (step i . r) (if (< i %d) (begin (chk! 'b) (drive (+ i 1))) i)) "
                                      "(define (drive i) (if (< i %d) (begin (chk! 'a) (step (+ i 1) 0 0)) i))" % (n, n), "(drive 0)", TAIL]),
    ("pingpong-rest-apply", lambda n: [PRE, "(define (ping i . r) (if (< i %d) (begin (chk! 'a) (pong (+ i 1))) i)) "
                                            "(define (pong i) (if (< i %d) (begin (chk! 'b) (apply ping (list (+ i 1) 0))) i))" % (n, n), "(ping 0)", TAIL]),
    ("pingpong-nested-lambda", lambda n: [PRE, "(define (step i) (let ((f (lambda (x) (+ x 1)))) (if (< i %d) (begin (chk! 'b) (drive (f i))) i))) "
                                               "(define (drive i) (if (< i %d) (begin (chk! 'a) (step (+ i 1))) i))" % (n, n), "(drive 0)", TAIL]),
    ("pingpong-separate-units", lambda n: [PRE, "(define step #f)", "(define (drive i) (if (< i %d) (begin (chk! 'a) (step (+ i 1))) i))" % n,
                                           "(set! step (let ((s 1)) (lambda (i) (if (< i %d) (begin (chk! 'b) (drive (+ i s))) i))))" % n, "(drive 0)", TAIL]),
    ("pingpong-hof-separate-units", lambda n: [PRE, "(define (drive f i) (if (< i %d) (begin (chk! 'a) (f (+ i 1))) i))" % n,
                                               "(define step (let ((s 1)) (lambda (i) (if (< i %d) (begin (chk! 'b) (drive step (+ i s))) i))))" % n, "(drive step 0)", TAIL]),
    # the natively compiled side is probe-free (a call to the probe changes how it is compiled); the probe sits in the closure
    ("pingpong-pure-driver-hof", lambda n: [PRE, "(define (drive f i) (f f i))",
                                            "(define step (let ((s (string-length \"x\")) (driver drive)) (lambda (self i) (if (< i %d) (begin (chk! 'b) (driver self (+ i s))) i))))" % n,
                                            "(step step 0)", TAIL]),
    ("pingpong-pure-driver-global", lambda n: [PRE, "(define step #f)", "(define (drive i) (step (+ i 0)))",
                                               "(set! step (let ((s (string-length \"x\"))) (lambda (i) (if (< i %d) (begin (chk! 'b) (drive (+ i s))) i))))" % n,
                                               "(step 0)", TAIL]),
    ("pingpong-pure-driver-rest", lambda n: [PRE, "(define step #f)", "(define (drive i) (step i 0))",
                                             "(set! step (lambda (i . r) (if (< i %d) (begin (chk! 'b) (drive (+ i 1))) i)))" % n, "(step 0)", TAIL]),
    ("pingpong-pure-driver-3", lambda n: [PRE, "(define (drive f i acc) (f f i acc))",
                                          "(define step (let ((s (string-length \"x\")) (driver drive)) (lambda (self i acc) (if (< i %d) (begin (chk! 'b) (driver self (+ i s) (+ acc 2))) i))))" % n,
                                          "(step step 0 0)", TAIL]),
    # internal (lambda-lifted) functions
    ("lifted-internal", lambda n: [PRE, "(define (outer n) (define (ev i m) (if (< i m) (begin (chk! 'a) (od (+ i 1) m)) i)) "
                                        "(define (od i m) (if (< i m) (begin (chk! 'b) (ev (+ i 1) m)) i)) (ev 0 n))", "(outer %d)" % n, TAIL]),
    ("lifted-internal-capture", lambda n: [PRE, "(define (outer n) (define (ev i) (if (< i n) (begin (chk! 'a) (od (+ i 1))) i)) "
                                                "(define (od i) (if (< i n) (begin (chk! 'b) (ev (+ i 1))) i)) (ev 0))", "(outer %d)" % n, TAIL]),
    # module-level functions (mangled ##-prefixed globals)
    ("module-mutual", lambda n: [PRE, "(require \"%s\")" % MODFILE, "(mod-ev 0 %d chk!)" % n, TAIL]),
    ("module-self", lambda n: [PRE, "(require \"%s\")" % MODFILE, "(mod-self 0 %d chk!)" % n, TAIL]),
    ("module-rest-apply", lambda n: [PRE, "(require \"%s\")" % MODFILE, "(mod-rest 0 %d chk!)" % n, TAIL]),
]
# shapes whose statement-level expectation is debatable are observed but only reported through evidence
OBSERVE_ONLY = {"handler-body-tail"}


def work(item):
    env, lst = item
    fails, n = [], 0
    for name, steps, N, want_loop in lst:
        r = common.run_cases([{"id": 0, "steps": steps}], env=env, batch=1, timeout_ms=120000, retry_timeouts=False)[0]
        n += 1
        if r["exit"] != "normal" or len(r["steps"]) != len(steps):
            fails.append((name, "crash:" + r["exit"], steps))
            continue
        bad = [s for s in r["steps"] if s["s"] != "ok"]
        if bad:
            fails.append((name, "%s: %s" % (bad[0]["s"], bad[0].get("m", "")[:100]), steps))
            continue
        loopv = r["steps"][-2]["v"][-1]
        chk = r["steps"][-1]["v"][-1]
        if want_loop is not None and loopv != want_loop:
            fails.append((name, "loop result want %s got %s" % (want_loop, loopv), steps))
            continue
        if not chk.startswith("(lst (i 0) (i %d))" % N):
            fails.append((name, "stack depth grows after the first 8 visits of a call site: (visits above the early maximum, visits) = %s, expected (0 %d)" % (chk, N), steps))
    return n, fails


def work_exit_depth(item):
    """probe-free loops: the stack depth observed at loop exit must not depend on the iteration count"""
    env, lst = item
    fails, n = [], 0
    for name, kind, ctx, par, extra in lst:
        obs = []
        for N in (66, 1500):  # same residue modulo 2 and 3: the loop exits in the same function
            steps = build(kind, ctx, par, extra, N, probe=False)
            r = common.run_cases([{"id": 0, "steps": steps}], env=env, batch=1, timeout_ms=120000, retry_timeouts=False)[0]
            n += 1
            if r["exit"] != "normal" or len(r["steps"]) != len(steps) or any(s["s"] != "ok" for s in r["steps"]):
                obs.append("FAILED(%s)" % r["exit"])
            else:
                obs.append(r["steps"][-1]["v"][-1])
        if obs[0] != obs[1]:
            fails.append((name + "/probe-free", "stack depth at loop exit depends on the iteration count: %s after 66, %s after 1500" % (obs[0], obs[1]),
                          build(kind, ctx, par, extra, 1500, probe=False)))
    return n, fails


def rss_of(steps, env):
    r = common.run_cases([{"id": 0, "steps": steps + [{"op": "rss"}]}], env=env, batch=1, timeout_ms=600000, retry_timeouts=False)[0]
    if r["exit"] != "normal" or len(r["steps"]) != len(steps) + 1 or any(s["s"] != "ok" for s in r["steps"]):
        return None, r["exit"], [s for s in r["steps"] if s["s"] != "ok"][:1]
    return r["steps"][-1]["v"][0], "normal", None


def work_mem(item):
    env, name, big = item
    mk = dict(mem_shapes())[name]
    small_rss, ex1, bad1 = rss_of(mk(1000), env)
    big_rss, ex2, bad2 = rss_of(mk(big), env)
    return name, env, small_rss, big_rss, (ex1, bad1, ex2, bad2)


def mem_shapes():
    """loops without the per-iteration probe (the probe allocates): memory must not depend on the iteration count"""
    def self_loop(n):
        return ["(define (lp i a) (if (< i %d) (lp (+ i 1) (+ a 1)) a))" % n, "(lp 0 0)"]

    def mutual(n):
        return ["(define (ev? i) (if (< i %d) (od? (+ i 1)) #t)) (define (od? i) (if (< i %d) (ev? (+ i 1)) #f))" % (n, n), "(ev? 0)"]

    def rest(n):
        return ["(define (lp i . r) (if (< i %d) (lp (+ i 1) i i) (length r)))" % n, "(lp 0)"]

    def via_apply(n):
        return ["(define (lp i) (if (< i %d) (apply lp (list (+ i 1))) i))" % n, "(lp 0)"]

    def let_body(n):
        return ["(define (lp i) (let ((t (+ i 1))) (let ((u (+ t 0))) (if (< i %d) (lp u) i))))" % n, "(lp 0)"]

    def cond_loop(n):
        return ["(define (lp i acc) (cond ((>= i %d) acc) ((even? i) (lp (+ i 1) (+ acc 1))) (else (lp (+ i 1) acc))))" % n, "(lp 0 0)"]

    def param(n):
        return ["(define (lp k i) (if (< i %d) (k k (+ i 1)) i))" % n, "(lp lp 0)"]

    def named_let(n):
        return ["(let loop ((i 0) (s 0)) (if (< i %d) (loop (+ i 1) (+ s 1)) s))" % n]

    def captured(n):
        return ["(define (mk) (let ((c 0)) (letrec ((lp (lambda (i) (if (< i %d) (begin (set! c (+ c 1)) (lp (+ i 1))) c)))) lp)))" % n, "((mk) 0)"]
    return [("self", self_loop), ("mutual", mutual), ("rest", rest), ("apply", via_apply), ("let-body", let_body), ("cond", cond_loop),
            ("param", param), ("named-let", named_let), ("captured-assigned", captured)]


def main(argv=None):
    a = common.parse_args(argv)
    if a.replay:
        return common.replay_eval(a.replay)
    common.build()
    ensure_module()
    rep = common.Reporter(P, a.tier)
    thorough = a.tier == "thorough"
    N = 20000 if thorough else 1500
    progs = []
    kinds = ["self", "mutual2", "mutual3", "local-var", "apply", "global-set", "param"]
    for kind in kinds:
        for ctx in CTX:
            for par in PARAMS:
                for extra in EXTRAS:
                    if not thorough and extra != "none" and ctx[0] not in ("plain", "let2", "cond"):
                        continue
                    if kind == "param" and par[0] == "rest":
                        continue
                    name = "%s/%s/%s/%s" % (kind, ctx[0], par[0], extra)
                    progs.append((name, build(kind, ctx, par, extra, N), N, "(i %d)" % N))
    for name, mk in SPECIAL:
        progs.append((name, mk(N), N, None))
    pf = []
    for kind in kinds:
        for ctx in CTX:
            for par in PARAMS:
                for extra in EXTRAS:
                    if not thorough and extra != "none" and ctx[0] not in ("plain", "let2", "cond"):
                        continue
                    if kind == "param" and par[0] == "rest":
                        continue
                    pf.append(("%s/%s/%s/%s" % (kind, ctx[0], par[0], extra), kind, ctx, par, extra))
    envs = [None, {"STEEL_JIT": "false"}]
    items = [(env, ch) for env in envs for ch in common.split_round_robin(progs, 16)]
    results = common.pmap(work, items)
    results += common.pmap(work_exit_depth, [(env, ch) for env in [None, {"STEEL_JIT": "false"}] for ch in common.split_round_robin(pf, 16)])
    nrun = sum(r[0] for r in results)
    observed_only = []
    seen = set()
    for r in results:
        for name, why, steps in r[1]:
            if name in OBSERVE_ONLY:
                observed_only.append((name, why[:100]))
                continue
            import re
            parts = name.split("/")
            cls = re.sub(r"\d+", "N", why)[:60]
            key = (parts[0], parts[1] if len(parts) > 1 else "", cls) if ("depth grows" in why or "loop exit" in why) else (name, cls)
            if key in seen:
                continue
            seen.add(key)
            rep.violation("%s => %s" % (name, re.sub(r"= \(lst.*", "", why)[:120]), {"shape": name, "why": why, "steps": steps},
                          {"case": {"steps": steps}, "envs": envs, "timeout_ms": 120000})
    # memory: 10^3 vs 10^6 (thorough 10^7) iterations
    big = 10 ** 7 if thorough else 10 ** 6
    mitems = [(env, name, big) for env in envs for name, mk in mem_shapes()]
    mres = common.pmap(work_mem, mitems)
    mem_table = []
    for name, env, s, b, diag in mres:
        mem_table.append({"shape": name, "jit": env is None, "rss_kb_1e3": s, "rss_kb_big": b})
        if s is None or b is None:
            rep.violation("memory/%s jit=%s => run failed %s" % (name, env is None, str(diag)[:120]), {"diag": str(diag)}, {"case": {"steps": dict(mem_shapes())[name](big)}, "env": env, "timeout_ms": 600000})
        elif b - s > 64 * 1024:
            rep.violation("memory/%s jit=%s => peak RSS grows with the iteration count" % (name, env is None), {"rss_kb_1e3": s, "rss_kb_big": b},
                          {"case": {"steps": dict(mem_shapes())[name](big)}, "env": env, "timeout_ms": 600000})
    # deep non-tail recursion must end with an error value or a result
    deep = []
    for env in envs:
        for d in (10 ** 4, 10 ** 5, 10 ** 6):
            steps = ["(define (deep n) (if (= n 0) 0 (+ 1 (deep (- n 1)))))", "(with-handler (lambda (e) 'overflow-error) (deep %d))" % d, "(+ 1 2)"]
            r = common.run_cases([{"id": 0, "steps": steps}], env=env, batch=1, timeout_ms=300000)[0]
            st = r["steps"][1]["s"] if len(r["steps"]) > 1 else "-"
            deep.append({"depth": d, "jit": env is None, "exit": r["exit"], "status": st})
            if r["exit"] != "normal" or len(r["steps"]) < 3 or r["steps"][2]["s"] != "ok" or st == "panic":
                rep.violation("non-tail recursion depth %d jit=%s => %s %s" % (d, env is None, r["exit"], st), {"exit": r["exit"]},
                              {"case": {"steps": steps}, "env": env, "timeout_ms": 300000})
    cov = {"evaluations": nrun + len(mitems) * 2 + len(deep), "distinct_nontrivial": len(progs),
           "rule": "loop shapes = 7 call kinds x %d tail contexts x 4 parameter lists x extras (all 4 in thorough; quick: all for 3 contexts) + %d special "
                   "shapes; each runs %d iterations with a probe at every call site comparing (operand stack, frame stack, native depth) with the "
                   "first visit, result = closed form; JIT on and off; 9 probe-free shapes at 10^3 vs %d iterations compared on peak RSS (margin 64 MB); "
                   "non-tail recursion at depth 10^4..10^6" % (len(CTX), len(SPECIAL), N, big),
           "samples": [progs[5][1][1:], progs[len(progs) // 2][1][1:], progs[-1][1][1:]], "exhaustive": True, "shapes": len(progs),
           "iterations_per_shape": N, "memory_table": mem_table, "deep_recursion": deep, "observed_only_shapes": observed_only}
    return rep.finish("exploration", cov, assumptions=["hook H5 (#%verif-stack-depth)", "iteration counts between the ladder rungs are covered by the per-iteration invariant"])


if __name__ == "__main__":
    sys.exit(main())
