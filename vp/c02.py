"""C02 – observable behaviour is independent of JIT / optimisation configuration (differential, no reference needed).
The C01 program set (all families, including evaluation histories in which compiled code calls globals that are redefined or
assigned later) is evaluated under every configuration of the tier; all configurations must agree, step by step, on
(status, last value, output). One harness process per configuration, so the prelude is compiled under it too."""
import sys, json, itertools, re
from . import common, progs, c01

P = "C02"
SW = ["STEEL_JIT", "STEEL_INLINE", "STEEL_INLINE_RECURSIVE", "STEEL_CLOSURE_LIFTING", "STEEL_MODULE_INLINE"]
ON = {"STEEL_JIT": None, "STEEL_INLINE": "1", "STEEL_INLINE_RECURSIVE": "1", "STEEL_CLOSURE_LIFTING": None, "STEEL_MODULE_INLINE": "1"}
OFF = {"STEEL_JIT": "false", "STEEL_INLINE": None, "STEEL_INLINE_RECURSIVE": None, "STEEL_CLOSURE_LIFTING": "false", "STEEL_MODULE_INLINE": None}
DEFAULT = {"STEEL_JIT": 1, "STEEL_INLINE": 0, "STEEL_INLINE_RECURSIVE": 0, "STEEL_CLOSURE_LIFTING": 1, "STEEL_MODULE_INLINE": 0}


def env_of(bits):
    e = {}
    for s, b in zip(SW, bits):
        v = ON[s] if b else OFF[s]
        if v is not None:
            e[s] = v
    return e


def label(bits):
    return "".join("%s%s" % ("+" if b else "-", s[6:9]) for s, b in zip(SW, bits))


def configs(tier):
    d = tuple(DEFAULT[s] for s in SW)
    if tier == "thorough":
        return [d] + [b for b in itertools.product((1, 0), repeat=5) if b != d]
    out = [d]
    for i in range(5):
        b = list(d)
        b[i] = 1 - b[i]
        out.append(tuple(b))
    return out


def work(item):
    """one chunk of programs under every configuration (one harness process per configuration in this worker); compared locally"""
    cfgs, lst = item
    nall = len(lst)
    lst = [(i, steps) for i, steps in lst if c01.terminates(steps)]
    obs = {}
    for bits in cfgs:
        env = env_of(bits)
        cases = [{"id": i, "steps": c01.mat(steps)} for i, steps in lst]
        iso = [c for c in cases if any(("(define" in s or "(require" in s) for s in c["steps"])]
        bat = [c for c in cases if not any(("(define" in s or "(require" in s) for s in c["steps"])]
        res = common.run_cases(bat, env=env, batch=25, timeout_ms=20000)
        res.update(common.run_cases(iso, env=env, batch=1, timeout_ms=20000))
        obs[bits] = {i: norm(c01.observe(res[i], len(steps))) for i, steps in lst}
    base = cfgs[0]
    raw, classes, ncmp = [], {}, 0
    for i, steps in lst:
        o0 = obs[base][i]
        classes[o0[-1][0]] = classes.get(o0[-1][0], 0) + 1
        for b in cfgs[1:]:
            ncmp += 1
            if obs[b][i] != o0:
                raw.append((steps, base, b))
    return len(lst), ncmp, raw, classes, nall - len(lst)


def norm(obs):
    out = []
    for st, v, o in obs:
        if st.startswith("crash") or st in ("panic", "missing"):
            st = "crash"
        out.append((st, v, o))
        if st in ("err", "crash"):
            break
    return out


def observe_one(steps, bits):
    r = common.run_cases([{"id": 0, "steps": c01.mat(steps)}], env=env_of(bits), batch=1, timeout_ms=20000)[0]
    return norm(c01.observe(r, len(steps)))


def differs(steps, b1, b2):
    if not c01.wellformed(steps):
        return False
    return observe_one(steps, b1) != observe_one(steps, b2)


def shrink_one(f):
    from .shrink import shrink
    steps, b1, b2 = f
    m = shrink(" STEPSEP ".join(steps), lambda t: differs([s.strip() for s in t.split("STEPSEP") if s.strip()], b1, b2),
               atoms=("1", "#f", "x"), max_calls=400)
    return [s.strip() for s in m.split("STEPSEP") if s.strip()], b1, b2, steps


def main(argv=None):
    a = common.parse_args(argv)
    if a.replay:
        r = json.load(open(a.replay))
        print(json.dumps(r, indent=1, ensure_ascii=False)[:3000])
        common.build()
        rp = r["replay"]
        o1, o2 = observe_one(rp["steps"], tuple(rp["config_a"])), observe_one(rp["steps"], tuple(rp["config_b"]))
        print(label(rp["config_a"]), o1)
        print(label(rp["config_b"]), o2)
        return 1 if o1 != o2 else 0
    common.build()
    rep = common.Reporter(P, a.tier)
    fam = c01.program_set("quick" if a.tier == "quick" else "thorough")
    allp = []
    for name, ps in fam:
        if a.tier == "thorough" and name == "size":
            ps = progs.size_family(4)  # 32 configurations: the size-5 family stays with C01
        allp += ps
    cfgs = configs(a.tier)
    items = [(cfgs, ch) for ch in common.chunks(list(enumerate(allp)), 400)]
    results = common.pmap(work, items)
    base = cfgs[0]
    raw = []
    n_cmp = sum(r[1] for r in results)
    n_nonterm = sum(r[4] for r in results)
    n_run = sum(r[0] for r in results)
    outcome_classes = {}
    for r in results:
        raw += r[2]
        for k, v in r[3].items():
            outcome_classes[k] = outcome_classes.get(k, 0) + v
    raw.sort(key=lambda f: (sum(len(s) for s in f[0]), f[0]))
    reps, keys = [], set()
    for f in raw:
        shape = re.sub(r"-?\d+(/\d+)?(\.\d+)?|\"[^\"]*\"|#[tf]|'\(\)", "_", " | ".join(f[0]))
        k = (f[2], shape)
        if k not in keys:
            keys.add(k)
            reps.append(f)
    seen = set()
    for st, b1, b2, orig in common.pmap(shrink_one, reps[:300]):
        o1, o2 = observe_one(st, b1), observe_one(st, b2)
        if o1 == o2:
            st, o1, o2 = orig, observe_one(orig, b1), observe_one(orig, b2)
        sig = "%s :: %s vs %s" % (" | ".join(st), label(b1), label(b2))
        shape = (re.sub(r"\b\d+\b", "_", " | ".join(st)), b2)
        if shape in seen:
            continue
        seen.add(shape)
        rep.violation(sig, {"minimal": st, "found_as": orig, label(b1): o1, label(b2): o2},
                      {"steps": st, "config_a": list(b1), "config_b": list(b2)})
    cov = {"evaluations": len(allp) * len(cfgs), "distinct_nontrivial": len(allp),
           "rule": "every program of the C01 families (closed terms up to a size, position contexts, skeletons, JIT-directed operand grid, "
                   "evaluation histories with later redefinition/assignment of called globals, and the same programs as one compilation unit) "
                   "under %d configurations of the five switches (%s); per step (status, last value, output) must be identical in all; "
                   "distinct = programs; every program is non-trivial for a differential check" % (len(cfgs), "all 32" if a.tier == "thorough" else "default + each switch flipped alone"),
           "samples": [allp[len(allp) // 5 * k] for k in range(1, 5)], "exhaustive": True, "programs": len(allp), "configurations": [label(b) for b in cfgs],
           "pairwise_comparisons": n_cmp, "programs_run": n_run, "skipped_nonterminating_in_reference": n_nonterm, "raw_disagreements": len(raw), "disagreement_shapes_minimised": len(reps),
           "default_config_outcomes_of_last_step": outcome_classes}
    return rep.finish("exploration", cov, assumptions=["programs are deterministic (no threads, time or randomness)",
                                                       "agreement is decided only for the enumerated programs; not a translation validation of the native tier"])


if __name__ == "__main__":
    sys.exit(main())
