"""Shared machinery: build, harness processes, parallel map, evidence, findings protocol."""
import os, sys, json, subprocess, time, hashlib, multiprocessing, atexit, signal, threading

VERIF = os.path.dirname(os.path.dirname(os.path.abspath(__file__)))
REPO = os.environ.get("VERIF_REPO", "/repo")
TARGET = os.environ.get("VERIF_TARGET", os.path.join(VERIF, "target"))
SVH = os.path.join(TARGET, "debug", "svh")
NPROC = int(os.environ.get("VERIF_NPROC", "16"))
SEED = int(os.environ.get("VERIF_SEED", "0") or 0)
# experiments against a modified tree (seeded change, reverted fix) write their evidence / replays elsewhere
OUT = os.environ.get("VERIF_OUT", VERIF)


class MachineryError(Exception):
    pass


def machinery_exit(msg):
    print("MACHINERY-ERROR " + str(msg), flush=True)
    sys.exit(2)


def build():
    if os.environ.get("VERIF_NO_BUILD") == "1" and os.path.exists(SVH):
        return
    r = subprocess.run([os.path.join(VERIF, "bin", "build.sh")])
    if r.returncode != 0 or not os.path.exists(SVH):
        machinery_exit("harness build failed")


# ----------------------------------------------------------------------------------------
# harness processes

DEFAULT_ENV_CLEAR = ["STEEL_JIT", "STEEL_INLINE", "STEEL_INLINE_RECURSIVE", "STEEL_CLOSURE_LIFTING",
                     "STEEL_MODULE_INLINE"]


class Harness:
    def __init__(self, driver="eval", args=(), env=None, cwd=None):
        e = dict(os.environ)
        for k in DEFAULT_ENV_CLEAR:
            e.pop(k, None)
        e.setdefault("STEEL_HOME", os.path.join(VERIF, ".work", "steel_home"))
        os.makedirs(e["STEEL_HOME"], exist_ok=True)
        if env:
            for k, v in env.items():
                if v is None:
                    e.pop(k, None)
                else:
                    e[k] = v
        self.desc = (driver, tuple(args), tuple(sorted((env or {}).items())))
        self.p = subprocess.Popen([SVH, driver] + list(args), stdin=subprocess.PIPE, stdout=subprocess.PIPE,
                                  stderr=subprocess.DEVNULL, env=e, cwd=cwd, bufsize=0)
        self.rf = os.fdopen(self.p.stdout.fileno(), "rb", buffering=1 << 16, closefd=False)
        line = self.rf.readline()
        try:
            self.hello = json.loads(line)
        except Exception:
            raise MachineryError("harness did not start: %r" % line)

    def request(self, obj):
        """send one request, return (list of response objects, exit string)"""
        data = (json.dumps(obj) + "\n").encode()
        self.p.stdin.write(data)
        self.p.stdin.flush()
        out = []
        while True:
            line = self.rf.readline()
            if not line:
                raise MachineryError("harness died (%s)" % (self.desc,))
            o = json.loads(line)
            if o.get("done"):
                return out, o.get("exit")
            out.append(o)

    def close(self):
        try:
            self.p.stdin.close()
        except Exception:
            pass
        try:
            self.p.wait(timeout=2)
        except Exception:
            self.p.kill()


_HARNESSES = {}


def harness(driver="eval", args=(), env=None):
    key = (driver, tuple(args), tuple(sorted((env or {}).items())))
    h = _HARNESSES.get(key)
    if h is None or h.p.poll() is not None:
        h = Harness(driver, args, env)
        _HARNESSES[key] = h
    return h


def close_harnesses():
    for h in list(_HARNESSES.values()):
        h.close()
    _HARNESSES.clear()


atexit.register(close_harnesses)


def run_cases(cases, env=None, batch=50, timeout_ms=10000, engine="new", retry_timeouts=True):
    """Run eval cases ({"id","steps",..}) in forked children of a pristine engine.
    Returns {id: {"steps":[..], "exit": "normal"|"signal:N"|"timeout"|...}}.
    Cases lost when a batch child dies are re-run one per child, so every verdict about a
    crash/hang is attributed to a single case."""
    h = harness("eval", (engine,), env)
    res = {}
    pending = list(cases)
    i = 0
    while i < len(pending):
        chunk = pending[i:i + batch]
        i += batch
        out, ex = h.request({"cases": chunk, "timeout_ms": timeout_ms})
        if ex and ex.startswith("machinery"):
            raise MachineryError(ex)
        got = set()
        last_mark = None
        for o in out:
            if "mark" in o:
                last_mark = o["mark"]
                continue
            o["exit"] = "normal"
            res[o["id"]] = o
            got.add(o["id"])
            last_mark = None
        missing = [c for c in chunk if c["id"] not in got]
        if missing:
            if len(chunk) == 1:
                res[chunk[0]["id"]] = {"id": chunk[0]["id"], "steps": [], "exit": ex, "last_mark": last_mark}
            else:
                for c in missing:
                    o2, ex2 = h.request({"cases": [c], "timeout_ms": timeout_ms})
                    marks = [o["mark"] for o in o2 if "mark" in o]
                    o2 = [o for o in o2 if "mark" not in o]
                    if o2:
                        o2[0]["exit"] = "normal"
                        res[c["id"]] = o2[0]
                    else:
                        res[c["id"]] = {"id": c["id"], "steps": [], "exit": ex2, "last_mark": marks[-1] if marks else None}
    if retry_timeouts:
        # a time-out is only believed when it repeats with twice the budget in a child of its own (a loaded machine is not a hang)
        byid = {c["id"]: c for c in cases}
        for cid, r in list(res.items()):
            if r.get("exit") == "timeout" and cid in byid:
                o2, ex2 = h.request({"cases": [byid[cid]], "timeout_ms": timeout_ms * 2})
                marks = [o["mark"] for o in o2 if "mark" in o]
                o2 = [o for o in o2 if "mark" not in o]
                if o2:
                    o2[0]["exit"] = "normal"
                    o2[0]["retried_after_timeout"] = True
                    res[cid] = o2[0]
                else:
                    res[cid] = {"id": cid, "steps": [], "exit": ex2, "last_mark": marks[-1] if marks else None}
    return res


# ----------------------------------------------------------------------------------------
# parallel map over chunks

def _pm_worker(args):
    fn, item = args
    try:
        return ("ok", fn(item))
    except MachineryError as e:
        return ("mach", str(e))
    except Exception as e:
        import traceback
        return ("mach", traceback.format_exc())


def pmap(fn, items, nproc=None):
    """fn must be a module-level function; each worker process keeps its own harnesses."""
    nproc = nproc or NPROC
    items = list(items)
    if not items:
        return []
    if nproc <= 1 or len(items) == 1:
        return [fn(x) for x in items]
    ctx = multiprocessing.get_context("fork")
    with ctx.Pool(min(nproc, len(items))) as pool:
        out = []
        for st, r in pool.imap(_pm_worker, [(fn, x) for x in items]):
            if st != "ok":
                pool.terminate()
                machinery_exit(r)
            out.append(r)
        return out


def chunks(seq, n):
    seq = list(seq)
    return [seq[i:i + n] for i in range(0, len(seq), n)]


def split_round_robin(seq, k):
    seq = list(seq)
    return [seq[i::k] for i in range(k) if seq[i::k]]


# ----------------------------------------------------------------------------------------
# evidence + findings

def sha(s):
    return hashlib.sha256(s.encode("utf-8", "surrogatepass")).hexdigest()[:16]


def known_findings():
    p = os.path.join(VERIF, "known_findings.json")
    if not os.path.exists(p):
        return []
    return json.load(open(p))["findings"]


class Reporter:
    """Collects failing cases for one property; applies the known-findings protocol."""

    def __init__(self, prop, tier):
        self.prop = prop
        self.tier = tier
        self.t0 = time.time()
        self.fail = {}  # signature -> dict(what, replay)
        self.notes = []
        self.known = {f["signature"]: f for f in known_findings()
                      if f["property"] == prop and f.get("status") == "known"}

    def violation(self, signature, what, replay):
        """signature: canonical minimal text identifying the failing input/history/schedule."""
        if signature not in self.fail:
            self.fail[signature] = {"what": what, "replay": replay}

    def finish(self, level, coverage, assumptions=None, extra=None):
        wall = time.time() - self.t0
        new = []
        seen_known = []
        for sig, f in self.fail.items():
            if sig in self.known:
                seen_known.append(sig)
            else:
                new.append(sig)
        rdir = os.path.join(OUT, "replays", self.prop)
        for sig in seen_known:
            print("KNOWN-FINDING: property=%s %s" % (self.prop, self.known[sig].get("what_fails", sig)))
        for sig in new:
            os.makedirs(rdir, exist_ok=True)
            path = os.path.join(rdir, sha(sig) + ".json")
            with open(path, "w") as fh:
                json.dump({"property": self.prop, "signature": sig, "what": self.fail[sig]["what"],
                           "replay": self.fail[sig]["replay"],
                           "cmd": "./check %s --replay %s" % (self.prop, path)}, fh, indent=1)
            print("VIOLATION property=%s replay=%s" % (self.prop, path))
            print("  signature: %s" % sig[:400])
            print("  what: %s" % str(self.fail[sig]["what"])[:600])
        cov = dict(coverage)
        cov.setdefault("known_findings_reobserved", sorted(seen_known))
        ev = {"property_id": self.prop, "tier": self.tier, "seed": SEED, "level": level, "coverage": cov,
              "assumptions": assumptions or [], "wall_s": round(wall, 2), "violations": len(new)}
        if extra:
            ev.update(extra)
        os.makedirs(os.path.join(OUT, "evidence"), exist_ok=True)
        with open(os.path.join(OUT, "evidence", self.prop + ".json"), "w") as fh:
            json.dump(ev, fh, indent=1, ensure_ascii=False)
        summary = {k: v for k, v in cov.items() if isinstance(v, (int, float, bool))}
        print("%s tier=%s wall=%.1fs new_violations=%d known=%d %s" % (
            self.prop, self.tier, wall, len(new), len(seen_known), json.dumps(summary)))
        return 1 if new else 0


def parse_args(argv=None):
    import argparse
    ap = argparse.ArgumentParser()
    ap.add_argument("--tier", default=os.environ.get("VERIF_TIER", "quick"), choices=["quick", "thorough"])
    ap.add_argument("--replay", default=None)
    ap.add_argument("--part", default=None, help="restrict to a sub-part of the check (debugging)")
    return ap.parse_args(argv)


def replay_eval(path):
    """Generic replay for eval-type cases: re-run the recorded case(s), print what is observed now."""
    r = json.load(open(path))
    rp = r["replay"]
    build()
    cases = rp["cases"] if "cases" in rp else [rp["case"]]
    envs = rp.get("envs") or [rp.get("env")]
    ok = True
    for env in envs:
        res = run_cases([dict(c, id=i) for i, c in enumerate(cases)], env=env, batch=1,
                        timeout_ms=rp.get("timeout_ms", 20000), engine=rp.get("engine", "new"))
        for i, c in enumerate(cases):
            print(json.dumps({"env": env, "case": c, "observed": res[i]}, ensure_ascii=False))
    print("expected:", json.dumps(rp.get("expected"), ensure_ascii=False))
    print("observed-when-found:", json.dumps(rp.get("observed"), ensure_ascii=False))
    return 0
