"""Reference semantics: a deliberately boring CEK-style evaluator for the core language over Python values.
- exact numbers via ref_num (int / Fraction / float); proper lists are Python tuples, improper pairs are Pair;
- globals are binding cells; a compilation unit resolves every global reference to the cell in force after the unit's own defines
  (so later redefinitions do not affect earlier code, set! does);
- call/cc (re-entrant), dynamic-wind (R7RS wind-list algorithm), with-handler, error;
- operand evaluation order is a parameter: callers run each program under several orders and treat disagreement as Unspecified.
Anything the reports/Steel book do not pin down evaluates to UNSPEC, which poisons comparison of that result."""
import sys
from fractions import Fraction
from . import ref_num
from .shrink import parse as sx_parse, Pre

sys.setrecursionlimit(20000)


class Sym(str):
    pass


class Char(str):
    pass


class Pair:
    __slots__ = ("car", "cdr")

    def __init__(self, a, d):
        self.car, self.cdr = a, d


class MVec:
    def __init__(self, items):
        self.items = list(items)


class IVec:
    def __init__(self, items):
        self.items = tuple(items)


class Box:
    def __init__(self, v):
        self.v = v


class HM:
    def __init__(self, d=None):
        self.d = dict(d or {})  # enc(key) -> (key, value)


class VoidT:
    def __repr__(self):
        return "#<void>"


class UnspecT:
    def __repr__(self):
        return "#<unspec>"


VOID, UNSPEC = VoidT(), UnspecT()


class Closure:
    def __init__(self, params, rest, body, env, name=None):
        self.params, self.rest, self.body, self.env, self.name = params, rest, body, env, name


class CaseClosure:
    """case-lambda: the first clause whose formals agree with the number of arguments"""

    def __init__(self, clauses):
        self.clauses = clauses


class Prim:
    def __init__(self, name, fn, special=None):
        self.name, self.fn, self.special = name, fn, special


class Cont:
    def __init__(self, k, winds):
        self.k, self.winds = k, winds


class ErrObj:
    def __init__(self, msg, irritants=()):
        self.msg, self.irritants = msg, irritants


class SchemeError(Exception):
    def __init__(self, payload):
        self.payload = payload


class CompileError(Exception):
    pass


class Budget(Exception):
    pass


def enc(v):
    if v is True:
        return "#t"
    if v is False:
        return "#f"
    if isinstance(v, (int, Fraction, float)):
        return ref_num.enc(v)
    if isinstance(v, Sym):
        import json
        return "(sym %s)" % json.dumps(str(v), ensure_ascii=False)
    if isinstance(v, Char):
        return "(chr %d)" % ord(v)
    if isinstance(v, str):
        import json
        return "(str %s)" % json.dumps(v, ensure_ascii=False)
    if isinstance(v, tuple):
        return "(lst" + "".join(" " + enc(x) for x in v) + ")"
    if isinstance(v, Pair):
        return "(pair %s %s)" % (enc(v.car), enc(v.cdr))
    if isinstance(v, MVec):
        return "(mvec" + "".join(" " + enc(x) for x in v.items) + ")"
    if isinstance(v, IVec):
        return "(vec" + "".join(" " + enc(x) for x in v.items) + ")"
    if isinstance(v, Box):
        return "(box %s)" % enc(v.v)
    if isinstance(v, HM):
        items = sorted((k, enc(x[1])) for k, x in v.d.items())
        return "(hash" + "".join(" (%s %s)" % kv for kv in items) + ")"
    if v is VOID:
        return "(void)"
    if v is UNSPEC:
        return "(unspec)"
    if isinstance(v, (Closure, CaseClosure, Prim)):
        return "(clos)"
    if isinstance(v, Cont):
        return "(cont)"
    if isinstance(v, ErrObj):
        return "(custom)"
    raise ValueError(v)


# ------------------------------------------------------------------ reader (on top of shrink.parse)
def datum(d):
    if isinstance(d, Pre):
        tag = {"'": "quote", "`": "quasiquote", ",": "unquote", ",@": "unquote-splicing"}[d[0]]
        return (Sym(tag), datum(d[1]))
    if isinstance(d, tuple) and d and d[0] == "L":
        items = [datum(x) for x in d[2]]
        if d[1] == "#(":
            return IVec(items)
        if len(items) >= 3 and items[-2] == Sym("."):
            tail = items[-1]
            for x in reversed(items[:-2]):
                tail = cons(x, tail)
            return tail
        return tuple(items)
    return atom(d)


def atom(s):
    if s in ("#t", "#true"):
        return True
    if s in ("#f", "#false"):
        return False
    if s.startswith('"'):
        import json
        try:
            return json.loads(s)
        except Exception:
            return s[1:-1]
    if s.startswith("#\\"):
        body = s[2:]
        named = {"space": " ", "newline": "\n", "tab": "\t", "nul": "\0", "null": "\0"}
        return Char(named.get(body, body[0] if body else " "))
    try:
        return int(s)
    except ValueError:
        pass
    try:
        if "/" in s:
            n, d = s.split("/")
            return ref_num.norm(Fraction(int(n), int(d)))
    except Exception:
        pass
    try:
        if s in ("+inf.0", "-inf.0", "+nan.0"):
            return float(s[:-2].replace("inf", "inf").replace("nan", "nan"))
        if any(c in s for c in ".eE") and s[0] in "+-.0123456789":
            return float(s)
    except ValueError:
        pass
    return Sym(s)


def read_all(text):
    return [datum(d) for d in sx_parse(text)]


def cons(a, d):
    if isinstance(d, tuple):
        return (a,) + d
    return Pair(a, d)


# ------------------------------------------------------------------ resolver: surface datum -> core AST
class Scope:
    def __init__(self, names, parent):
        self.names, self.parent = set(names), parent

    def has(self, n):
        s = self
        while s is not None:
            if n in s.names:
                return True
            s = s.parent
        return False


SPECIAL = {"quote", "quasiquote", "if", "define", "set!", "lambda", "case-lambda", "λ", "fn", "let", "let*", "letrec", "letrec*", "begin", "cond", "case",
           "and", "or", "when", "unless", "do", "with-handler", "named-let", "else", "=>", "unquote", "unquote-splicing", "define-values",
           "while"}


class Resolver:
    def __init__(self, interp):
        self.I = interp
        self.gensym = 0

    def fresh(self, base="t"):
        self.gensym += 1
        return Sym("%%%s%d" % (base, self.gensym))

    def gcell(self, name):
        c = self.I.pending.get(name) or self.I.globals.get(name)
        if c is None:
            self.I.free_seen = True
            return FREE
        return c

    def body(self, forms, sc):
        """lambda/let body with internal defines = letrec*"""
        defs, rest = [], []
        for f in forms:
            if isinstance(f, tuple) and f and f[0] == Sym("define") and not sc.has("define"):
                defs.append(f)
            elif isinstance(f, tuple) and f and f[0] == Sym("begin") and not sc.has("begin") and all(
                    isinstance(g, tuple) and g and g[0] == Sym("define") for g in f[1:]) and len(f) > 1:
                defs += list(f[1:])
            else:
                rest.append(f)
        if not defs:
            if not rest:
                return ("const", VOID)
            return ("begin", [self.x(f, sc) for f in rest]) if len(rest) > 1 else self.x(rest[0], sc)
        # defines may be interleaved with expressions: keep textual order via letrec* with dummy binders for expressions
        names, seq = [], []
        for f in forms:
            if f in defs:
                n, e = self.split_define(f)
                names.append(n)
                seq.append((n, e))
            elif isinstance(f, tuple) and f and f[0] == Sym("begin") and all(g in defs for g in f[1:]) and len(f) > 1:
                for g in f[1:]:
                    n, e = self.split_define(g)
                    names.append(n)
                    seq.append((n, e))
            else:
                seq.append((None, f))
        sc2 = Scope(names, sc)
        steps = []
        for n, e in seq:
            steps.append((n, self.x(e, sc2, name=n)))
        return ("letrec*", names, steps)

    def split_define(self, f):
        if len(f) < 2:
            raise CompileError("bad define")
        if isinstance(f[1], (tuple, Pair)) and not isinstance(f[1], Sym):
            sig = f[1]
            if isinstance(sig, tuple):
                if not sig:
                    raise CompileError("bad define")
                name, params = sig[0], sig[1:]
            else:
                name, params = sig.car, sig.cdr
            return name, (Sym("lambda"), params) + tuple(f[2:])
        if len(f) != 3:
            raise CompileError("bad define")
        return f[1], f[2]

    def params(self, p):
        """-> (list of names, rest name or None)"""
        if isinstance(p, Sym):
            return [], p
        if not isinstance(p, (tuple, Pair)):
            raise CompileError("bad parameter list")
        names = []
        while isinstance(p, Pair):
            names.append(p.car)
            p = p.cdr
        if isinstance(p, tuple):
            names += list(p)
            rest = None
        else:
            rest = p
            if not isinstance(rest, Sym):
                raise CompileError("bad rest parameter")
        for n in names:
            if not isinstance(n, Sym):
                raise CompileError("bad parameter")
        allp = names + ([rest] if rest is not None else [])
        if len(set(allp)) != len(allp):
            # a parameter that occurs twice: "it is an error" (R7RS 4.1.4), i.e. nothing is pinned down
            raise Budget()
        return names, rest

    def x(self, e, sc, name=None):
        if isinstance(e, Sym):
            if sc.has(e):
                return ("lref", e)
            return ("gref", self.gcell(e), e)
        if isinstance(e, Pair):
            raise CompileError("dotted pair in expression position")
        if not isinstance(e, tuple):
            return ("const", e)
        if not e:
            raise CompileError("empty application")
        h = e[0]
        if isinstance(h, Sym) and h in SPECIAL and not sc.has(h):
            return getattr(self, "f_" + {"set!": "set", "let*": "letstar", "letrec*": "letrec", "λ": "lambda", "fn": "lambda", "case-lambda": "caselambda",
                                         "with-handler": "handler"}.get(h, str(h)))(e, sc, name)
        return ("app", self.x(h, sc), [self.x(a, sc) for a in e[1:]])

    def f_quote(self, e, sc, name):
        if len(e) != 2:
            raise CompileError("bad quote")
        return ("const", e[1])

    def f_quasiquote(self, e, sc, name):
        def qq(d):
            if isinstance(d, tuple):
                if len(d) == 2 and d[0] == Sym("unquote"):
                    return self.x(d[1], sc)
                parts = []
                for it in d:
                    if isinstance(it, tuple) and len(it) == 2 and it[0] == Sym("unquote-splicing"):
                        parts.append(("splice", self.x(it[1], sc)))
                    else:
                        parts.append(("one", qq(it)))
                return ("qqlist", parts)
            return ("const", d)
        return qq(e[1])

    def f_if(self, e, sc, name):
        if len(e) == 3:
            return ("if", self.x(e[1], sc), self.x(e[2], sc), ("const", VOID))
        if len(e) != 4:
            raise CompileError("bad if")
        return ("if", self.x(e[1], sc), self.x(e[2], sc), self.x(e[3], sc))

    def f_define(self, e, sc, name):
        # only reachable for a define in expression position
        raise CompileError("define in expression context")

    def f_set(self, e, sc, name):
        if len(e) != 3 or not isinstance(e[1], Sym):
            raise CompileError("bad set!")
        v = self.x(e[2], sc)
        if sc.has(e[1]):
            return ("setl", e[1], v)
        return ("setg", self.gcell(e[1]), e[1], v)

    def f_lambda(self, e, sc, name):
        if len(e) < 3:
            raise CompileError("bad lambda")
        names, rest = self.params(e[1])
        sc2 = Scope(names + ([rest] if rest else []), sc)
        return ("lambda", names, rest, self.body(list(e[2:]), sc2), name)

    def f_caselambda(self, e, sc, name):
        clauses = []
        for c in e[1:]:
            if not isinstance(c, (tuple, Pair)) or len(c) < 2:
                raise CompileError("bad case-lambda clause")
            names, rest = self.params(c[0])
            sc2 = Scope(names + ([rest] if rest else []), sc)
            clauses.append((names, rest, self.body(list(c[1:]), sc2)))
        return ("caselambda", clauses, name)

    def f_let(self, e, sc, name):
        if len(e) >= 3 and isinstance(e[1], Sym):
            return self.named_let(e, sc)
        if len(e) < 3 or not isinstance(e[1], tuple):
            raise CompileError("bad let")
        names, inits = [], []
        for b in e[1]:
            if not (isinstance(b, tuple) and len(b) == 2 and isinstance(b[0], Sym)):
                raise CompileError("bad let binding")
            names.append(b[0])
            inits.append(self.x(b[1], sc, name=b[0]))
        sc2 = Scope(names, sc)
        return ("let", names, inits, self.body(list(e[2:]), sc2))

    def named_let(self, e, sc):
        nm = e[1]
        names = [b[0] for b in e[2]]
        inits = [self.x(b[1], sc) for b in e[2]]
        sc2 = Scope([nm], sc)
        sc3 = Scope(names, sc2)
        lam = ("lambda", names, None, self.body(list(e[3:]), sc3), nm)
        return ("letrec*", [nm], [(nm, lam), (None, ("app", ("lref", nm), inits))])

    def f_letstar(self, e, sc, name):
        if len(e) < 3:
            raise CompileError("bad let*")
        bs = list(e[1])
        if not bs:
            return self.f_let((Sym("let"), ()) + tuple(e[2:]), sc, name)
        inner = (Sym("let*"), tuple(bs[1:])) + tuple(e[2:]) if len(bs) > 1 else (Sym("let"), ()) + tuple(e[2:])
        return self.f_let((Sym("let"), (bs[0],), inner), sc, name)

    def f_letrec(self, e, sc, name):
        names = [b[0] for b in e[1]]
        sc2 = Scope(names, sc)
        steps = [(b[0], self.x(b[1], sc2, name=b[0])) for b in e[1]]
        steps.append((None, self.body(list(e[2:]), sc2)))
        return ("letrec*", names, steps)

    def f_begin(self, e, sc, name):
        if len(e) == 1:
            return ("const", VOID)
        return ("begin", [self.x(f, sc) for f in e[1:]])

    def f_cond(self, e, sc, name):
        out = ("const", VOID)
        for cl in reversed(e[1:]):
            if not isinstance(cl, tuple) or not cl:
                raise CompileError("bad cond")
            if cl[0] == Sym("else") and not sc.has("else"):
                out = self.body(list(cl[1:]), sc)
            elif len(cl) == 3 and cl[1] == Sym("=>"):
                t = self.fresh()
                sc2 = Scope([t], sc)
                out = ("let", [t], [self.x(cl[0], sc)], ("if", ("lref", t), ("app", self.x(cl[2], sc2), [("lref", t)]), out))
            elif len(cl) == 1:
                t = self.fresh()
                out = ("let", [t], [self.x(cl[0], sc)], ("if", ("lref", t), ("lref", t), out))
            else:
                out = ("if", self.x(cl[0], sc), self.body(list(cl[1:]), sc), out)
        return out

    def f_case(self, e, sc, name):
        t = self.fresh()
        out = ("const", VOID)
        for cl in reversed(e[2:]):
            if cl[0] == Sym("else"):
                out = self.body(list(cl[1:]), sc)
            else:
                test = ("app", ("const", self.I.prims["%memv"]), [("lref", t), ("const", tuple(cl[0]))])
                out = ("if", test, self.body(list(cl[1:]), sc), out)
        return ("let", [t], [self.x(e[1], sc)], out)

    def f_and(self, e, sc, name):
        if len(e) == 1:
            return ("const", True)
        out = self.x(e[-1], sc)
        for a in reversed(e[1:-1]):
            out = ("if", self.x(a, sc), out, ("const", False))
        return out

    def f_or(self, e, sc, name):
        if len(e) == 1:
            return ("const", False)
        out = self.x(e[-1], sc)
        for a in reversed(e[1:-1]):
            t = self.fresh()
            out = ("let", [t], [self.x(a, sc)], ("if", ("lref", t), ("lref", t), out))
        return out

    def f_when(self, e, sc, name):
        return ("if", self.x(e[1], sc), self.body(list(e[2:]), sc), ("const", VOID))

    def f_unless(self, e, sc, name):
        return ("if", self.x(e[1], sc), ("const", VOID), self.body(list(e[2:]), sc))

    def f_while(self, e, sc, name):
        lp = self.fresh("loop")
        return self.x((Sym("let"), lp, (), (Sym("when"), e[1]) + tuple(e[2:]) + ((lp,),)), sc)

    def f_do(self, e, sc, name):
        lp = self.fresh("do")
        specs = e[1]
        names = [s[0] for s in specs]
        inits = [s[1] for s in specs]
        steps = [s[2] if len(s) > 2 else s[0] for s in specs]
        test = e[2]
        body = tuple(e[3:])
        loop = (Sym("let"), lp, tuple((n, i) for n, i in zip(names, inits)),
                (Sym("if"), test[0], (Sym("begin"),) + tuple(test[1:]) if len(test) > 1 else (Sym("quote"), VOID),
                 (Sym("begin"),) + body + ((lp,) + tuple(steps),)))
        return self.x(loop, sc)

    def f_handler(self, e, sc, name):
        if len(e) < 3:
            raise CompileError("bad with-handler")
        return ("handler", self.x(e[1], sc), self.body(list(e[2:]), sc))

    def f_else(self, e, sc, name):
        raise CompileError("else")

    f_unquote = f_else
    locals()["f_unquote-splicing"] = f_else
    locals()["f_=>"] = f_else
    locals()["f_define-values"] = f_else
    locals()["f_named-let"] = f_else


# ------------------------------------------------------------------ machine
class Env:
    __slots__ = ("vars", "parent")

    def __init__(self, vars, parent):
        self.vars, self.parent = vars, parent

    def cell(self, n):
        e = self
        while e is not None:
            c = e.vars.get(n)
            if c is not None:
                return c
            e = e.parent
        raise KeyError(n)


UNASSIGNED = object()
FREE = ["free"]  # cell standing for a global that does not exist (free identifier)


class Interp:
    def __init__(self, order="lr", budget=200000):
        self.order = order
        self.budget0 = budget
        self.globals = {}
        self.pending = {}
        self.out = []
        self.prims = {}
        self.R = Resolver(self)
        install_prims(self)
        self.run_text(PRELUDE_SRC, internal=True)

    # -- public: one compilation unit (= one engine.run call); returns ("ok", [values per form]) | ("err", kind)
    def run_text(self, text, internal=False):
        try:
            forms = read_all(text)
        except Exception:
            return ("err", "parse")
        return self.run_unit(forms)

    def run_unit(self, forms):
        self.budget = self.budget0
        self.free_seen = False
        self.free_evaluated = False
        # flatten top-level begins; collect defines -> fresh cells (visible to the whole unit)
        flat = []

        def fl(f):
            if isinstance(f, tuple) and f and f[0] == Sym("begin") and "begin" not in self.globals_shadow():
                for g in f[1:]:
                    fl(g)
            else:
                flat.append(f)
        for f in forms:
            fl(f)
        self.pending = {}
        seen = set()
        try:
            plan = []
            for f in flat:
                if isinstance(f, tuple) and f and f[0] == Sym("define"):
                    n, e = self.R.split_define(f)
                    if not isinstance(n, Sym):
                        raise CompileError("bad define")
                    if n in seen:
                        raise CompileError("duplicate define in one unit")
                    seen.add(n)
                    self.pending[n] = [UNASSIGNED]
                    plan.append((n, e))
                else:
                    plan.append((None, f))
            top = Scope([], None)
            code = []
            for n, e in plan:
                x = self.R.x(e, top, name=n)
                code.append(("defg", self.pending[n], n, x) if n is not None else x)
        except CompileError as ce:
            self.pending = {}
            return ("err", "compile:" + str(ce))
        except Exception as ex:
            self.pending = {}
            return ("err", "compile:" + repr(ex))
        self.globals.update(self.pending)
        self.pending = {}
        vals = []
        for x in code:
            try:
                v = self.execute(x)
            except SchemeError:
                return ("err", "runtime")
            vals.append(v)
        return ("ok", vals)

    def globals_shadow(self):
        return ()

    # -- CEK loop
    def execute(self, x):
        self.winds = ()
        return self.loop(("ev", x, None, ("halt",)))

    def tick(self):
        self.budget -= 1
        if self.budget < 0:
            raise Budget()

    def loop(self, st):
        while True:
            self.tick()
            try:
                tag = st[0]
                if tag == "ev":
                    st = self.ev(st[1], st[2], st[3])
                elif tag == "ret":
                    k = st[2]
                    if k[0] == "halt":
                        return st[1]
                    st = self.ret(st[1], k)
                elif tag == "apply":
                    st = self.apply(st[1], st[2], st[3])
                else:
                    raise RuntimeError(tag)
            except SchemeError as se:
                st = self.throw(se.payload, st[-1] if st[0] != "ev" else st[3])

    def ev(self, x, env, k):
        t = x[0]
        if t == "const":
            return ("ret", x[1], k)
        if t == "lref":
            v = env.cell(x[1])[0]
            if v is UNASSIGNED:
                raise SchemeError(ErrObj("unassigned"))
            return ("ret", v, k)
        if t == "gref":
            if x[1] is FREE:
                self.free_evaluated = True
                raise SchemeError(ErrObj("free identifier"))
            v = x[1][0]
            if v is UNASSIGNED:
                v = UNSPEC
            return ("ret", v, k)
        if t == "if":
            return ("ev", x[1], env, ("if", x[2], x[3], env, k))
        if t == "lambda":
            return ("ret", Closure(x[1], x[2], x[3], env, x[4]), k)
        if t == "caselambda":
            return ("ret", CaseClosure([Closure(n, r, b, env, x[2]) for n, r, b in x[1]]), k)
        if t == "begin":
            return ("ev", x[1][0], env, ("seq", x[1], 1, env, k)) if len(x[1]) > 1 else ("ev", x[1][0], env, k)
        if t == "app":
            exprs = [x[1]] + x[2]
            order = self.perm(len(exprs))
            return ("ev", exprs[order[0]], env, ("args", exprs, order, 1, [None] * len(exprs), order[0], env, k))
        if t == "let":
            if not x[1]:
                return ("ev", x[3], Env({}, env), k)
            order = self.perm(len(x[2]))
            return ("ev", x[2][order[0]], env, ("letk", x, order, 1, [None] * len(x[2]), order[0], env, k))
        if t == "letrec*":
            env2 = Env({n: [UNASSIGNED] for n in x[1]}, env)
            steps = x[2]
            return ("ev", steps[0][1], env2, ("lrk", steps, 0, env2, k))
        if t in ("setl", "setg"):
            return ("ev", x[-1], env, ("setk", x, env, k))
        if t == "defg":
            return ("ev", x[3], env, ("defk", x[1], k))
        if t == "handler":
            return ("ev", x[1], env, ("hk1", x[2], env, k))
        if t == "qqlist":
            return self.qq(x[1], 0, [], env, k)
        raise RuntimeError("bad core form %r" % (t,))

    def qq(self, parts, i, acc, env, k):
        if i == len(parts):
            return ("ret", tuple(acc), k)
        kind, sub = parts[i]
        return ("ev", sub, env, ("qqk", parts, i, acc, env, k))

    def perm(self, n):
        idx = list(range(n))
        if self.order == "rl":
            idx.reverse()
        elif self.order == "rot" and n > 1:
            idx = idx[1:] + idx[:1]
        return idx

    def ret(self, v, k):
        t = k[0]
        if t == "if":
            return ("ev", k[1] if v is not False else k[2], k[3], k[4])
        if t == "seq":
            forms, i, env, kk = k[1], k[2], k[3], k[4]
            if i == len(forms) - 1:
                return ("ev", forms[i], env, kk)
            return ("ev", forms[i], env, ("seq", forms, i + 1, env, kk))
        if t == "args":
            _, exprs, order, pos, vals, cur, env, kk = k
            vals = list(vals)
            vals[cur] = v
            if pos == len(order):
                return ("apply", vals[0], vals[1:], kk)
            return ("ev", exprs[order[pos]], env, ("args", exprs, order, pos + 1, vals, order[pos], env, kk))
        if t == "letk":
            _, x, order, pos, vals, cur, env, kk = k
            vals = list(vals)
            vals[cur] = v
            if pos == len(order):
                return ("ev", x[3], Env({n: [val] for n, val in zip(x[1], vals)}, env), kk)
            return ("ev", x[2][order[pos]], env, ("letk", x, order, pos + 1, vals, order[pos], env, kk))
        if t == "lrk":
            _, steps, i, env2, kk = k
            n = steps[i][0]
            if n is not None:
                env2.vars[n][0] = v
            if i == len(steps) - 1:
                return ("ret", v if n is None else VOID, kk)
            return ("ev", steps[i + 1][1], env2, ("lrk", steps, i + 1, env2, kk))
        if t == "setk":
            x, env, kk = k[1], k[2], k[3]
            cell = env.cell(x[1]) if x[0] == "setl" else x[1]
            if cell is FREE:
                self.free_evaluated = True
                raise SchemeError(ErrObj("free identifier"))
            if cell[0] is UNASSIGNED and x[0] == "setl":
                raise SchemeError(ErrObj("unassigned"))
            cell[0] = v
            return ("ret", UNSPEC, kk)
        if t == "defk":
            k[1][0] = v
            return ("ret", VOID, k[2])
        if t == "hk1":
            # handler value computed; run body with the handler installed
            return ("ev", k[1], k[2], ("hframe", v, self.winds, k[3]))
        if t == "hframe":
            return ("ret", v, k[3])
        if t == "qqk":
            _, parts, i, acc, env, kk = k
            kind = parts[i][0]
            acc = list(acc)
            if kind == "splice":
                if not isinstance(v, tuple):
                    raise SchemeError(ErrObj("unquote-splicing of a non-list"))
                acc += list(v)
            else:
                acc.append(v)
            return self.qq(parts, i + 1, acc, env, kk)
        if t == "dw_before":
            _, before, thunk, after, kk = k
            self.winds = self.winds + ((before, after),)
            return ("apply", thunk, [], ("dw_body", before, after, kk))
        if t == "dw_body":
            _, before, after, kk = k
            self.winds = self.winds[:-1]
            return ("apply", after, [], ("dw_after", v, kk))
        if t == "dw_after":
            return ("ret", k[1], k[2])
        if t == "applyk":
            return ("apply", k[1], k[2], k[3])
        raise RuntimeError("bad frame %r" % (t,))

    def rewind(self, target, then, kparent):
        """go from self.winds to target: after thunks of the extents left (innermost first), then before thunks of the extents
        entered (outermost first); each thunk runs with the wind list of its enclosing extent (R7RS 6.10)"""
        cur = self.winds
        n = 0
        while n < len(cur) and n < len(target) and cur[n] is target[n]:
            n += 1
        thunks = []
        for i in range(len(cur) - 1, n - 1, -1):
            thunks.append((cur[i][1], cur[:i]))
        for i in range(n, len(target)):
            thunks.append((target[i][0], target[:i]))

        def chain(j):
            if j == len(thunks):
                self.winds = target
                return then
            proc, w = thunks[j]
            self.winds = w
            return ("apply", proc, [], ("pyk", lambda v, j=j: chain(j + 1), kparent))
        return chain(0)

    def throw(self, payload, k):
        """unwind k to the nearest handler frame; run the after thunks of the winds left on the way"""
        kk = k
        while True:
            if kk[0] == "halt":
                raise SchemeError(payload)
            if kk[0] == "hframe":
                handler, winds, outer = kk[1], kk[2], kk[3]
                then = ("apply", handler, [payload], outer)
                return self.rewind(winds, then, outer)
            kk = kk[-1]

    def apply(self, f, args, k):
        if isinstance(f, CaseClosure):
            for c in f.clauses:
                if len(args) == len(c.params) or (c.rest is not None and len(args) > len(c.params)):
                    return self.apply(c, args, k)
            raise SchemeError(ErrObj("arity"))
        if isinstance(f, Closure):
            n = len(f.params)
            if len(args) < n or (f.rest is None and len(args) > n):
                raise SchemeError(ErrObj("arity"))
            vars = {p: [a] for p, a in zip(f.params, args)}
            if f.rest is not None:
                vars[f.rest] = [tuple(args[n:])]
            return ("ev", f.body, Env(vars, f.env), k)
        if isinstance(f, Prim):
            if f.special:
                return f.special(self, args, k)
            try:
                return ("ret", f.fn(*args), k)
            except TypeError:
                raise SchemeError(ErrObj("arity/type"))
            except (AttributeError, IndexError, KeyError, ValueError):
                raise SchemeError(ErrObj("type"))
        if isinstance(f, Cont):
            if len(args) != 1:
                raise SchemeError(ErrObj("continuation arity"))
            return self.rewind(f.winds, ("ret", args[0], f.k), f.k)
        raise SchemeError(ErrObj("not a procedure"))


# "pyk" frames: continuation implemented by a Python callable (used only by the wind machinery)
_orig_ret = Interp.ret


def _ret(self, v, k):
    if k[0] == "pyk":
        return k[1](v)
    return _orig_ret(self, v, k)


Interp.ret = _ret


# ------------------------------------------------------------------ primitives
def truthy(v):
    return v is not False


def is_num(v):
    return isinstance(v, (int, Fraction, float)) and not isinstance(v, bool)


def tyerr(msg="type"):
    raise SchemeError(ErrObj(msg))


ARITY = {"=": (2, 2), "quotient": (2, 2), "remainder": (2, 2), "modulo": (2, 2), "abs": (1, 1), "gcd": (2, 2), "lcm": (2, 2), "expt": (2, 2),
         "zero?": (1, 1), "positive?": (1, 1), "negative?": (1, 1), "even?": (1, 1), "odd?": (1, 1), "add1": (1, 1), "sub1": (1, 1),
         "exact->inexact": (1, 1), "floor": (1, 1), "round": (1, 1), "exact-integer-sqrt": (1, 1), "<": (1, 99), ">": (1, 99), "<=": (1, 99),
         ">=": (1, 99), "-": (1, 99), "/": (1, 99), "min": (1, 99), "max": (1, 99)}


def num_op(op):
    def f(*args):
        lo, hi = ARITY.get(op, (0, 99))
        if not (lo <= len(args) <= hi):
            raise SchemeError(ErrObj("arity"))
        if op in ("<", ">", "<=", ">=") and len(args) == 1:
            return True if is_num(args[0]) else tyerr()
        for a in args:
            if not is_num(a):
                tyerr()
        try:
            return ref_num.apply(op, list(args))
        except ref_num.Err:
            raise SchemeError(ErrObj("arith"))
        except ref_num.Unspec:
            return UNSPEC
        except (ValueError, ZeroDivisionError, OverflowError):
            return UNSPEC
    return f


def equal(a, b):
    return enc(a) == enc(b) if not (a is UNSPEC or b is UNSPEC) else UNSPEC


def eqv(a, b):
    if isinstance(a, (tuple, Pair, MVec, IVec, Box, HM, Closure, CaseClosure, str)) and not isinstance(a, (Sym, Char)):
        if isinstance(a, tuple) and a == () and b == ():
            return True
        return True if a is b else (UNSPEC if enc(a) == enc(b) and not isinstance(a, (MVec, Box, Closure, CaseClosure)) else False)
    if is_num(a) and is_num(b) and (abs(a) if not isinstance(a, float) else 0) > (1 << 60):
        return UNSPEC if enc(a) == enc(b) else False
    return enc(a) == enc(b)


def install_prims(I):
    P = {}

    def d(name, fn):
        P[name] = Prim(name, fn)

    for op in ("+", "-", "*", "/", "=", "<", ">", "<=", ">=", "quotient", "remainder", "modulo", "abs", "min", "max", "gcd", "lcm",
               "expt", "zero?", "positive?", "negative?", "even?", "odd?", "add1", "sub1", "exact->inexact", "floor", "round",
               "exact-integer-sqrt"):
        d(op, num_op(op))

    def car(p):
        if isinstance(p, tuple) and p:
            return p[0]
        if isinstance(p, Pair):
            return p.car
        tyerr()

    def cdr(p):
        if isinstance(p, tuple) and p:
            return p[1:]
        if isinstance(p, Pair):
            return p.cdr
        tyerr()
    d("car", car)
    d("cdr", cdr)
    d("first", car)
    d("rest", cdr)
    d("cons", cons)
    d("list", lambda *a: tuple(a))
    d("null?", lambda x: x == () and isinstance(x, tuple))
    d("empty?", lambda x: (x == () if isinstance(x, tuple) else tyerr()))
    d("pair?", lambda x: (isinstance(x, tuple) and len(x) > 0) or isinstance(x, Pair))
    d("list?", lambda x: isinstance(x, tuple))
    d("length", lambda x: len(x) if isinstance(x, tuple) else tyerr())

    def append(*ls):
        out = ()
        for l in ls[:-1]:
            if not isinstance(l, tuple):
                tyerr()
            out += l
        if not ls:
            return ()
        last = ls[-1]
        if isinstance(last, tuple):
            return out + last
        if not out:
            return last
        r = last
        for x in reversed(out):
            r = cons(x, r)
        return r
    d("append", append)
    d("reverse", lambda l: tuple(reversed(l)) if isinstance(l, tuple) else tyerr())

    def list_ref(l, i):
        if not isinstance(l, tuple) or not isinstance(i, int) or isinstance(i, bool) or i < 0 or i >= len(l):
            tyerr()
        return l[i]
    d("list-ref", list_ref)

    def list_tail(l, i):
        if not isinstance(l, tuple) or not isinstance(i, int) or i < 0 or i > len(l):
            tyerr()
        return l[i:]
    d("list-tail", list_tail)
    d("last", lambda l: l[-1] if isinstance(l, tuple) and l else tyerr())
    d("not", lambda x: x is False)
    d("eq?", lambda a, b: eqv(a, b) if not (isinstance(a, str) and not isinstance(a, (Sym, Char))) else UNSPEC)
    d("eqv?", eqv)
    d("equal?", equal)
    d("%memv", lambda x, l: any(eqv(x, y) is True for y in l))
    d("symbol?", lambda x: isinstance(x, Sym))
    d("string?", lambda x: isinstance(x, str) and not isinstance(x, (Sym, Char)))
    d("number?", is_num)
    d("integer?", lambda x: isinstance(x, int) and not isinstance(x, bool) or (isinstance(x, float) and x == int(x) if isinstance(x, float) and x == x and abs(x) != float("inf") else False))
    d("boolean?", lambda x: isinstance(x, bool))
    d("procedure?", lambda x: isinstance(x, (Closure, CaseClosure, Prim, Cont)))
    d("function?", lambda x: isinstance(x, (Closure, CaseClosure, Prim, Cont)))
    d("void?", lambda x: x is VOID)
    d("char?", lambda x: isinstance(x, Char))
    d("vector?", lambda x: isinstance(x, (MVec, IVec)))
    d("vector", lambda *a: MVec(a))
    d("vector-immutable", lambda *a: IVec(a))
    d("make-vector", lambda n, v=0: MVec([v] * n) if isinstance(n, int) and 0 <= n < 10000 else tyerr())

    def vref(v, i):
        if not isinstance(v, (MVec, IVec)) or not isinstance(i, int) or isinstance(i, bool) or i < 0 or i >= len(v.items):
            tyerr()
        return v.items[i]
    d("vector-ref", vref)

    def vset(v, i, x):
        if not isinstance(v, MVec) or not isinstance(i, int) or isinstance(i, bool) or i < 0 or i >= len(v.items):
            tyerr()
        v.items[i] = x
        return VOID
    d("vector-set!", vset)
    d("vector-length", lambda v: len(v.items) if isinstance(v, (MVec, IVec)) else tyerr())
    d("vector->list", lambda v: tuple(v.items) if isinstance(v, (MVec, IVec)) else tyerr())
    d("list->vector", lambda l: IVec(l) if isinstance(l, tuple) else tyerr())
    d("box", lambda v: Box(v))
    d("unbox", lambda b: b.v if isinstance(b, Box) else tyerr())

    def set_box(b, v):
        if not isinstance(b, Box):
            tyerr()
        b.v = v
        return UNSPEC
    d("set-box!", set_box)

    def hkey(k):
        if isinstance(k, (MVec, Box, Closure, CaseClosure, Prim, Cont)):
            return None
        return enc(k)

    def mkhash(*kv):
        if len(kv) % 2:
            tyerr()
        h = HM()
        for i in range(0, len(kv), 2):
            kk = hkey(kv[i])
            if kk is None:
                return UNSPEC
            h.d[kk] = (kv[i], kv[i + 1])
        return h
    d("hash", mkhash)

    def hins(h, k, v):
        if not isinstance(h, HM):
            tyerr()
        kk = hkey(k)
        if kk is None:
            return UNSPEC
        n = HM(h.d)
        n.d[kk] = (k, v)
        return n
    d("hash-insert", hins)

    def href(h, k):
        if not isinstance(h, HM):
            tyerr()
        kk = hkey(k)
        if kk not in h.d:
            raise SchemeError(ErrObj("key not found"))
        return h.d[kk][1]
    d("hash-ref", href)
    d("hash-get", href)
    d("hash-try-get", lambda h, k: (h.d[hkey(k)][1] if hkey(k) in h.d else False) if isinstance(h, HM) else tyerr())
    d("hash-contains?", lambda h, k: (hkey(k) in h.d) if isinstance(h, HM) else tyerr())
    d("hash-length", lambda h: len(h.d) if isinstance(h, HM) else tyerr())
    d("hash-remove", lambda h, k: HM({a: b for a, b in h.d.items() if a != hkey(k)}) if isinstance(h, HM) else tyerr())

    def strapp(*s):
        for x in s:
            if not (isinstance(x, str) and not isinstance(x, (Sym, Char))):
                tyerr()
        return "".join(s)
    d("string-append", strapp)
    d("string-length", lambda s: len(s) if isinstance(s, str) and not isinstance(s, (Sym, Char)) else tyerr())
    d("symbol->string", lambda s: str(s) if isinstance(s, Sym) else tyerr())
    d("string->symbol", lambda s: Sym(s) if isinstance(s, str) and not isinstance(s, (Sym, Char)) else tyerr())
    d("number->string", lambda n: ref_num.tostr(n) if ref_num.is_exact(n) else UNSPEC)
    pass
    P["void"] = VOID

    def disp(I2):
        def f(*a):
            for x in a:
                I2.out.append(fmt_display(x))
            return VOID
        return f
    d("display", disp(I))

    def displayln(*a):
        for x in a:
            I.out.append(fmt_display(x))
        I.out.append("\n")
        return VOID
    d("displayln", displayln)
    d("newline", lambda: (I.out.append("\n"), VOID)[1])

    def error(*a):
        raise SchemeError(ErrObj("error", a))
    d("error", error)
    d("error!", error)
    d("raise-error", error)

    # specials (need the machine)
    def sp_apply(I2, args, k):
        if len(args) < 2 or not isinstance(args[-1], tuple):
            raise SchemeError(ErrObj("apply"))
        return ("apply", args[0], list(args[1:-1]) + list(args[-1]), k)
    P["apply"] = Prim("apply", None, sp_apply)

    def sp_callcc(I2, args, k):
        if len(args) != 1:
            raise SchemeError(ErrObj("arity"))
        return ("apply", args[0], [Cont(k, I2.winds)], k)
    P["call/cc"] = Prim("call/cc", None, sp_callcc)
    P["call-with-current-continuation"] = P["call/cc"]

    def sp_dw(I2, args, k):
        if len(args) != 3:
            raise SchemeError(ErrObj("arity"))
        before, thunk, after = args
        return ("apply", before, [], ("dw_before", before, thunk, after, k))
    P["dynamic-wind"] = Prim("dynamic-wind", None, sp_dw)

    def sp_values(I2, args, k):
        return ("ret", tuple(args) if len(args) != 1 else args[0], k)
    P["values"] = Prim("values", None, sp_values)

    def sp_cwv(I2, args, k):
        prod, cons_ = args
        return ("apply", prod, [], ("pyk", lambda v: ("apply", cons_, list(v) if isinstance(v, tuple) else [v], k), k))
    P["call-with-values"] = Prim("call-with-values", None, sp_cwv)
    I.prims = P
    for n, p in P.items():
        I.globals[Sym(n)] = [p]


def fmt_display(x):
    if isinstance(x, bool):
        return "#true" if x else "#false"
    if isinstance(x, int):
        return str(x)
    if isinstance(x, (Sym,)):
        return str(x)
    if isinstance(x, Char):
        return str(x)
    if isinstance(x, str):
        return x
    return "<?>"  # formatting of other values is not part of the reference; programs only display atoms


PRELUDE_SRC = """
(define (map f l . ls)
  (if (null? ls)
      (let loop ((l l)) (if (null? l) '() (let ((v (f (car l)))) (cons v (loop (cdr l))))))
      (let loop ((l l) (m (car ls))) (if (or (null? l) (null? m)) '() (let ((v (f (car l) (car m)))) (cons v (loop (cdr l) (cdr m))))))))
(define (for-each f l) (let loop ((l l)) (if (null? l) void (begin (f (car l)) (loop (cdr l))))))
(define (foldl f init l) (let loop ((acc init) (l l)) (if (null? l) acc (loop (f (car l) acc) (cdr l)))))
(define (foldr f init l) (let loop ((l l)) (if (null? l) init (f (car l) (loop (cdr l))))))
(define (filter p l) (let loop ((l l)) (cond ((null? l) '()) ((p (car l)) (cons (car l) (loop (cdr l)))) (else (loop (cdr l))))))
(define (reduce f init l) (foldl f init l))
(define (member x l) (let loop ((l l)) (cond ((null? l) #f) ((equal? x (car l)) l) (else (loop (cdr l))))))
(define (assoc x l) (let loop ((l l)) (cond ((null? l) #f) ((equal? x (car (car l))) (car l)) (else (loop (cdr l))))))
(define (assv x l) (assoc x l))
(define (assq x l) (assoc x l))
(define (list-index p l) (let loop ((l l) (i 0)) (cond ((null? l) #f) ((p (car l)) i) (else (loop (cdr l) (+ i 1))))))
(define (range a b) (let loop ((i a)) (if (>= i b) '() (cons i (loop (+ i 1))))))
(define (cadr l) (car (cdr l)))
(define (cddr l) (cdr (cdr l)))
(define (caar l) (car (car l)))
(define (second l) (car (cdr l)))
(define (third l) (car (cdr (cdr l))))
(define (identity x) x)
"""


def run_program(steps, order="lr", budget=200000):
    """steps: list of source texts (one engine.run each) -> list of (status, encoded-last-value or None, stdout)"""
    I = Interp(order=order, budget=budget)
    out = []
    for s in steps:
        I.out = []
        try:
            r = I.run_text(s)
        except Budget:
            out.append(("budget", None, ""))
            break
        except RecursionError:
            out.append(("budget", None, ""))
            break
        text = "".join(I.out)
        if r[0] == "ok":
            last = r[1][-1] if r[1] else VOID
            out.append(("ok", enc(last), text))
        else:
            out.append(("err", r[1], text))
    return out
