"""C03 – immutable values never change: the in-place update optimisation is unobservable.
For every collection kind, every reachable model state (BFS over functional updates, models from c11_coll), every update and
every way the operand can be held at the update site (global / live local / last use with a live alias / last use in one branch /
loop-carried with all old versions kept / captured by a closure / inside a container / rest-argument / both operands the same
object / cloned by another thread while the owner updates at its last use / uniquely referenced (the in-place path itself) / a fifth or later parameter read twice): the result equals the model's update of a fresh copy
and every other holder still observes the old value."""
import sys, json
from . import common, c11_coll
from .c11_coll import enc, lit, expected, ERR, Vec, HM, Sym

P = "C03"

# holding modes: {V} operand constructor, {U} update applied to variable x, result must be (lst <updated> <old>)
MODES = [
    ("global", ["(define x {V})", "(define r {U})", "(list r x)"]),
    ("live-local", ["(let ((x {V})) (let ((r {U})) (list r x)))"]),
    ("last-use-alias", ["(let ((y {V})) (let ((x y)) (let ((r {U})) (list r y))))"]),
    ("last-use-alias-2", ["(define (f x y) (let ((r {U})) (list r y)))", "(let ((v {V})) (f v v))"]),
    ("last-use-in-branch", ["(define (f x y c) (if c (list {U} y) (list x y)))", "(let ((v {V})) (f v v #t))"]),
    ("closure-capture", ["(let ((x {V})) (let ((g (lambda () x))) (let ((r {U})) (list r (g)))))"]),
    ("in-list", ["(let ((c (list {V}))) (let ((r (let ((x (car c))) {U}))) (list r (car c))))"]),
    ("in-vector", ["(let ((c (vector {V}))) (let ((r (let ((x (vector-ref c 0))) {U}))) (list r (vector-ref c 0))))"]),
    ("in-box", ["(let ((c (box {V}))) (let ((r (let ((x (unbox c))) {U}))) (list r (unbox c))))"]),
    ("in-hash", ["(let ((c (hash 'k {V}))) (let ((r (let ((x (hash-ref c 'k))) {U}))) (list r (hash-ref c 'k))))"]),
    ("rest-arg", ["(define (f . args) (let ((x (car args))) {U}))", "(let ((v {V})) (let ((r (f v 1))) (list r v)))"]),
    ("global-fn-arg-last-use", ["(define keep {V})", "(define (f x) {U})", "(list (f keep) keep)"]),
    ("map-callback", ["(let ((v {V})) (let ((rs (map (lambda (x) {U}) (list v v)))) (list (car rs) v)))"]),
    ("continuation", ["(let ((x {V})) (let ((k (call/cc (lambda (c) c)))) (if (procedure? k) (let ((r {U})) (k (list r))) (list (car k) x))))"]),
    # the operand is uniquely referenced at the update (the in-place path is the one that runs); the old value is rebuilt for comparison
    ("unique-local-last-use", ["(let ((x {V})) (let ((r {U})) (list r {V})))"]),
    ("unique-temporary", ["(list (let ((x {V})) {U}) {V})"]),
    ("unique-fn-arg", ["(define (f x) {U})", "(list (f {V}) {V})"]),
    ("unique-fn-arg-applied", ["(define (f x) {U})", "(list (apply f (list {V})) {V})"]),
    # a parameter beyond the fourth, read twice in one expression, the last read being its last use (called, not inlined)
    ("fifth-param-read-then-last-use", ["(define (f a b c d x) (list x {U}))", "(let ((r (apply f (list 1 2 3 4 {V})))) (list (car (cdr r)) (car r)))"]),
    ("sixth-param-read-then-last-use", ["(define (f a b c d e x) (list x {U} e))", "(let ((r (apply f (list 1 2 3 4 5 {V})))) (list (car (cdr r)) (car r)))"]),
    ("fifth-param-last-use-alias", ["(define (f a b c d x) {U})", "(let ((v {V})) (list (apply f (list 1 2 3 4 v)) v))"]),
    ("other-thread", ["(define bx (box {V}))", "(define c1 (channels/new))", "(define c2 (channels/new))",
                      "(define t (spawn-native-thread (lambda () (let ((mine (unbox bx))) (channel/send (channels-sender c1) 'got) "
                      "(channel/recv (channels-receiver c2)) mine))))",
                      "(channel/recv (channels-receiver c1))", "(define r (let ((x (unbox bx))) (set-box! bx #f) {U}))",
                      "(channel/send (channels-sender c2) 'go)", "(list r (thread-join! t))"]),
    ("other-thread-moved", ["(define c2 (channels/new))", "(define v {V})",
                            "(define t (let ((mine v)) (spawn-native-thread (lambda () (channel/recv (channels-receiver c2)) mine))))",
                            "(define r (let ((x v)) (set! v #f) {U}))", "(channel/send (channels-sender c2) 'go)", "(list r (thread-join! t))"]),
]
# loop-carried: apply the update 3 times keeping every version
LOOP = "(let loop ((x {V}) (i 0) (olds '())) (if (= i 3) (cons x olds) (loop {U} (+ i 1) (cons x olds))))"

# binary operations: (template with {a} {b}, model function)
BIN = {
    "hash": [("(hash-union {a} {b})", lambda a, b: HM({**b.dict(), **a.dict()}))],
    "list": [("(append {a} {b})", lambda a, b: a + b)],
    "hset": [("(hashset-union {a} {b})", lambda a, b: a | b), ("(hashset-intersection {a} {b})", lambda a, b: a & b),
             ("(hashset-difference {a} {b})", lambda a, b: a ^ b)],
    "str": [("(string-append {a} {b})", lambda a, b: a + b)],
    "ivec": [("(vector-append {a} {b})", None)],
}
BIN_MODES = [
    ("both-temp", "(list {OP:@A@:@B@} @A@ @B@)"),
    ("left-shared", "(let ((a @A@)) (list {OP:a:@B@} a @B@))"),
    ("right-shared", "(let ((b @B@)) (list {OP:@A@:b} @A@ b))"),
    ("both-shared", "(let ((a @A@) (b @B@)) (list {OP:a:b} a b))"),
    ("both-last-use", "(let ((a @A@) (b @B@)) (let ((a2 a) (b2 b)) (define (f p q) {OP:p:q}) (list (f a b) a2 b2)))"),
    ("both-unique-last-use", "(let ((a @A@) (b @B@)) (define (f p q) {OP:p:q}) (list (f a b) @A@ @B@))"),
    ("left-last-use-only", "(let ((a @A@) (b @B@)) (define (f p q) (list {OP:p:q} q)) (let ((r (f a b))) (list (car r) @A@ (car (cdr r)))))"),
]


def states(kind, depth):
    """BFS over the kind's functional updates (c11_coll models); returns list of model states"""
    inits, opsf = c11_coll.KINDS[kind]
    seen = list(inits)
    frontier = list(inits)
    for d in range(depth):
        nxt = []
        for s in frontier:
            T, O = opsf(s)
            for tmpl, fn in T:
                try:
                    ns = fn()
                except Exception:
                    continue
                size = len(ns.items) if isinstance(ns, Vec) else (len(ns.d) if isinstance(ns, HM) else len(ns))
                if ns not in seen and size <= 5:
                    seen.append(ns)
                    nxt.append(ns)
        frontier = nxt
    return seen


def programs(tier):
    out = []
    depth = 2 if tier == "thorough" else 1
    for kind in c11_coll.KINDS:
        if kind in c11_coll.MUTABLE_KINDS:
            continue
        sts = states(kind, depth)
        _, opsf = c11_coll.KINDS[kind]
        for s in sts:
            T, _ = opsf(s)
            for tmpl, fn in T:
                want = expected(fn)
                if want is None or want == ERR:
                    continue
                U = tmpl.replace("{s}", "x")
                V = lit(s)
                for mname, steps in MODES:
                    prog = [st.replace("{U}", U).replace("{V}", V) for st in steps]
                    out.append((kind, mname, tmpl, prog, "(lst %s %s)" % (want, enc(s))))
                # loop-carried
                try:
                    cur, olds = s, []
                    for i in range(3):
                        olds.insert(0, cur)
                        T2, _ = opsf(cur)
                        fn2 = dict((t, f) for t, f in T2)[tmpl]
                        cur = fn2()
                    wantl = "(lst %s)" % " ".join([enc(cur)] + [enc(o) for o in olds])
                    out.append((kind, "loop-carried", tmpl, [LOOP.replace("{U}", U).replace("{V}", V)], wantl))
                except Exception:
                    pass
        # binary operations over pairs of states (incl. the same object twice)
        small = sts[:6] if tier != "thorough" else sts[:10]
        for tmpl, model in BIN.get(kind, []):
            if model is None:
                continue
            for a in small:
                for b in small:
                    try:
                        want = enc(model(a, b))
                    except Exception:
                        continue
                    for mname, mt in BIN_MODES:
                        import re
                        code = re.sub(r"\{OP:([^:}]+):([^}]+)\}", lambda m: tmpl.replace("{a}", m.group(1)).replace("{b}", m.group(2)), mt)
                        code = code.replace("@A@", lit(a)).replace("@B@", lit(b))
                        out.append((kind, "bin-" + mname, tmpl, [code], "(lst %s %s %s)" % (want, enc(a), enc(b))))
                for a in small:
                    try:
                        want = enc(model(a, a))
                    except Exception:
                        continue
                    out.append((kind, "bin-same-object", tmpl, ["(let ((a %s)) (list %s a))" % (lit(a), tmpl.replace("{a}", "a").replace("{b}", "a"))],
                                "(lst %s %s)" % (want, enc(a))))
    return out


def work(item):
    env, lst = item
    cases = [{"id": i, "steps": prog} for i, (kind, mode, tmpl, prog, want) in lst]
    res = common.run_cases(cases, env=env, batch=1, timeout_ms=20000)
    fails = []
    for i, (kind, mode, tmpl, prog, want) in lst:
        r = res[i]
        if r["exit"] != "normal" or len(r["steps"]) != len(prog):
            got = "CRASH(%s)" % r["exit"]
        else:
            st = r["steps"][-1]
            got = st["v"][-1] if st["s"] == "ok" else st["s"].upper() + ": " + st.get("m", "")[:80]
        if got != want:
            fails.append((kind, mode, tmpl, prog, want, got))
    return len(lst), fails


def main(argv=None):
    a = common.parse_args(argv)
    if a.replay:
        return common.replay_eval(a.replay)
    common.build()
    rep = common.Reporter(P, a.tier)
    progs = programs(a.tier)
    envs = [None, {"STEEL_JIT": "false"}]
    items = [(env, ch) for env in envs for ch in common.chunks(list(enumerate(progs)), 300)]
    results = common.pmap(work, items)
    n = sum(r[0] for r in results)
    fails = sorted([f for r in results for f in r[1]], key=lambda f: (len(" ".join(f[3])), f[3]))
    seen = set()
    for kind, mode, tmpl, prog, want, got in fails:
        key = (kind, mode, tmpl, got.split(":")[0] if got.startswith(("ERR", "CRASH", "PANIC")) else "value")
        if key in seen:
            continue
        seen.add(key)
        rep.violation("%s / %s / %s :: %s" % (kind, mode, tmpl, " | ".join(prog)), {"program": prog, "want": want, "got": got},
                      {"case": {"steps": prog}, "envs": envs, "expected": want, "observed": got})
    modes = sorted(set(p[1] for p in progs))
    cov = {"states": len(set((p[0], p[3][0]) for p in progs)), "transitions": n, "traces_validated_against_impl": n,
           "evaluations": n, "distinct_nontrivial": len(progs),
           "rule": "for each collection kind: every model state reachable by <= %d functional updates x every update of the kind's alphabet "
                   "(boundary indices, duplicate and compound keys) x every holding mode of the operand at the update site (%d modes incl. two "
                   "thread hand-offs) plus the loop-carried mode keeping all old versions, plus binary operations over all pairs of states "
                   "under 6 ownership patterns and with the same object as both operands; JIT on and off. Oracle: result = model update of a "
                   "fresh copy, every other holder still sees the old value" % (2 if a.tier == "thorough" else 1, len(MODES)),
           "samples": [" | ".join(progs[k][3]) for k in (3, len(progs) // 3, len(progs) // 2, -1)], "exhaustive": True,
           "programs": len(progs), "holding_modes": modes, "configs": 2}
    return rep.finish("model_checking", cov, assumptions=[
        "models: vp/c11_coll.py; thread hand-offs are sequenced by channels/join (interleavings of the count operations themselves are C05)"])


if __name__ == "__main__":
    sys.exit(main())
