"""C10 – exact arithmetic and the numeric tower: exhaustive operand grid x operators x syntactic shapes,
compared with ref_num (Python int / Fraction / IEEE float)."""
import sys, json, time, itertools, math
from fractions import Fraction as F
from . import common
from .ref_num import apply, enc, lit, norm_enc, Err, Unspec, is_exact

P = "C10"

FULL = [0, 1, -1, 2, -2, 3, 7, 10, (1 << 31) - 1, (1 << 31), (1 << 31) + 1, -(1 << 31), (1 << 32) + 1,
        (1 << 62) - 1, 1 << 62, (1 << 63) - 1, 1 << 63, -(1 << 63), -(1 << 63) - 1, (1 << 63) - 2, 1 << 64, 10 ** 20,
        -10 ** 30, 3037000500,
        F(1, 2), F(-1, 3), F(7, 2), F((1 << 31) - 1, 2), F(1, 1 << 31), F(-1, (1 << 31) + 1), F((1 << 64) + 1, 3),
        F(1, 10 ** 20),
        0.0, -0.0, 0.5, 1.5, 2.5, -3.5, 1e21, 1e-7, 9007199254740992.0, 9007199254740994.0, 5e-324,
        1.7976931348623157e308, math.inf, -math.inf, math.nan, 4294967296.0, 9.223372036854775808e18]
QUICK = [0, 1, -1, 2, 7, (1 << 31) - 1, (1 << 62), (1 << 63) - 1, -(1 << 63), 1 << 63, 1 << 64, -10 ** 30,
         F(1, 2), F(-1, 3), F((1 << 31) - 1, 2), F((1 << 64) + 1, 3),
         0.0, -0.0, 1.5, 9007199254740992.0, 5e-324, math.inf, math.nan, 9.223372036854775808e18]

BIN_OPS = ["+", "-", "*", "/", "=", "<", ">", "<=", ">=", "quotient", "remainder", "modulo", "gcd", "lcm", "min", "max",
           "floor/", "truncate/"]
UN_OPS = ["-", "/", "abs", "exact-integer-sqrt", "exact", "inexact", "floor", "ceiling", "round", "truncate",
          "zero?", "positive?", "negative?", "even?", "odd?", "add1", "sub1", "number->string"]
TERN_OPS = ["+", "-", "*", "<", "<="]  # Steel's = is strictly binary (documented arity error)
TERN_OPERANDS = [0, 1, -1, (1 << 62), (1 << 63) - 1, -(1 << 63), F(1, 2), F(-1, 3), 0.5, 9007199254740992.0, math.nan]
EXPT_EXPS = [-3, -1, 0, 1, 2, 3, 10, 31, 32, 62, 63, 64, 70]
EXPT_BASES = [0, 1, -1, 2, -2, 3, 10, (1 << 31), (1 << 32) + 1, F(1, 2), F(-2, 3), F((1 << 31) - 1, 2)]

MULTI = {"floor/", "truncate/"}


def gen(tier):
    ops = FULL if tier == "thorough" else QUICK
    for op in BIN_OPS:
        for a in ops:
            for b in ops:
                yield (op, (a, b))
    for op in UN_OPS:
        for a in FULL:
            yield (op, (a,))
    for r in (2, 16):
        for a in FULL:
            if is_exact(a):
                yield ("number->string", (a, r))
    for op in TERN_OPS:
        for t in itertools.product(TERN_OPERANDS, repeat=3):
            yield (op, t)
    for b in EXPT_BASES:
        for e in EXPT_EXPS:
            yield ("expt", (b, e))


def shapes(op, args, uid, tier):
    """list of (shape name, [steps], index of the step carrying the result)"""
    L = [lit(a) for a in args]
    n = len(args)
    vs = ["x", "y", "z"][:n]
    call = "(%s %s)" % (op, " ".join(vs))
    wrap = (lambda e: "(call-with-values (lambda () %s) list)" % e) if op in MULTI else (lambda e: e)
    out = []
    out.append(("lit", [wrap("(%s %s)" % (op, " ".join(L)))], 0))
    out.append(("let", [wrap("(let (%s) %s)" % (" ".join("(%s %s)" % (v, l) for v, l in zip(vs, L)), call))], 0))
    g = ["g%d_%s" % (uid, v) for v in vs]
    out.append(("global", [" ".join("(define %s %s)" % (gv, l) for gv, l in zip(g, L)),
                           wrap("(%s %s)" % (op, " ".join(g)))], 1))
    fn = "f%d" % uid
    out.append(("fn", ["(define (%s %s) %s)" % (fn, " ".join(vs), wrap(call)), "(%s %s)" % (fn, " ".join(L))], 1))
    if op not in MULTI:
        out.append(("apply", ["(apply %s (list %s))" % (op, " ".join(L))], 0))
    if n == 2:
        out.append(("loc-lit", [wrap("((lambda (x) (%s x %s)) %s)" % (op, L[1], L[0]))], 0))
        out.append(("lit-loc", [wrap("((lambda (y) (%s %s y)) %s)" % (op, L[0], L[1]))], 0))
    if op in ("=", "<", ">", "<=", ">=", "zero?", "positive?", "negative?", "even?", "odd?"):
        out.append(("if", ["(define (t%d %s) (if %s #t #f))" % (uid, " ".join(vs), call),
                           "(t%d %s)" % (uid, " ".join(L))], 1))
    if tier == "thorough" or uid % 4 == 0:
        out.append(("s2n", [wrap("(%s %s)" % (op, " ".join('(string->number "%s")' % l for l in L)))], 0))
    return out


def expected(op, args):
    try:
        v = apply(op, list(args))
        return ("val", enc(v))
    except Err:
        return ("err", None)
    except Unspec:
        return ("unspec", None)
    except (OverflowError, ZeroDivisionError, ValueError):
        return ("unspec", None)


def observe(step):
    if step is None:
        return "missing"
    s = step.get("s")
    if s == "ok":
        v = step.get("v") or ["(none)"]
        return norm_enc(v[-1])
    if s == "err":
        return "ERR"
    return "PANIC"


def work(item):
    """item = (env, tier, [(uid, op, args)...]) -> (n_eval, n_defined, failures, unspec_disagree, outcomes)"""
    env, tier, lst = item
    cases, meta = [], {}
    for uid, op, args in lst:
        sh = shapes(op, args, uid, tier)
        steps, idx = [], []
        for name, st, ri in sh:
            idx.append((name, len(steps) + ri))
            steps.extend(st)
        cases.append({"id": uid, "steps": steps})
        meta[uid] = (op, args, idx, steps)
    res = common.run_cases(cases, env=env, batch=40, timeout_ms=20000)
    fails, n_eval, n_def, undis = [], 0, 0, 0
    outcomes = set()
    for uid, (op, args, idx, steps) in meta.items():
        r = res[uid]
        kind, want = expected(op, args)
        obs = {}
        if r["exit"] != "normal":
            for name, si in idx:
                obs[name] = "CRASH(%s)" % r["exit"]
        else:
            for name, si in idx:
                obs[name] = observe(r["steps"][si] if si < len(r["steps"]) else None)
        n_eval += len(idx)
        bad = {}
        for name, o in obs.items():
            outcomes.add(o if o in ("ERR", "PANIC") or o.startswith("CRASH") else o.split(" ")[0])
            if o == "PANIC" or o.startswith("CRASH") or o == "missing":
                bad[name] = o
            elif kind == "val" and o != want:
                bad[name] = o
            elif kind == "err" and o != "ERR":
                bad[name] = o
        if kind != "unspec":
            n_def += 1
        elif len(set(obs.values())) > 1:
            undis += 1
        if bad:
            expr = "(%s %s)" % (op, " ".join(lit(a) for a in args))
            names = sorted(bad)
            which = "all-shapes" if len(bad) == len(obs) else ",".join(names)
            got = sorted(set("PANIC" if (g == "PANIC" or g.startswith("CRASH(signal")) else g for g in bad.values()))
            sig = "%s want=%s got=%s shapes=%s" % (expr, want if kind == "val" else kind.upper(), "|".join(got), which)
            if op == "/" and len(args) == 2 and kind == "val" and len(got) == 1:
                # one mechanism, many inputs: the observed value is exactly x * (1/y) (reciprocal rounded first)
                try:
                    from .ref_num import f64_exact
                    fa, fb = f64_exact(args[0]), f64_exact(args[1])
                    if got[0] == enc(fa * (1.0 / fb)):
                        sig = "(/ x y) with an inexact operand is computed as (* x (/ 1 y)): reciprocal rounded first"
                except Exception:
                    pass
            fails.append((sig, {"expr": expr, "expected": want if kind == "val" else kind, "observed": obs, "env": env},
                          {"case": {"steps": steps}, "env": env, "expected": want if kind == "val" else kind,
                           "observed": obs}))
    return n_eval, n_def, fails, undis, sorted(outcomes)


ENVS = [None, {"STEEL_JIT": "false"}]


def main(argv=None):
    a = common.parse_args(argv)
    if a.replay:
        return common.replay_eval(a.replay)
    common.build()
    rep = common.Reporter(P, a.tier)
    allc = [(i, op, args) for i, (op, args) in enumerate(gen(a.tier))]
    items = []
    for env in ENVS:
        for ch in common.chunks(allc, 400):
            items.append((env, a.tier, ch))
    results = common.pmap(work, items)
    n_eval = sum(r[0] for r in results)
    n_def = sum(r[1] for r in results)
    undis = sum(r[3] for r in results)
    outs = set()
    for r in results:
        outs.update(r[4])
        for sig, what, replay in r[2]:
            rep.violation(sig + (" env=" + json.dumps(what["env"]) if False else ""), what, replay)
    samples = ["(%s %s)" % (op, " ".join(lit(x) for x in args)) for _, op, args in allc[:: max(1, len(allc) // 6)]][:6]
    cov = {"evaluations": n_eval, "distinct_nontrivial": n_def // len(ENVS),
           "rule": "complete grid: every operator x every operand tuple of the tier's operand alphabet x every syntactic shape "
                   "(literal/let/global/function/apply/local-literal mixes/if-test/string->number) x {JIT on, JIT off}; a case is "
                   "non-trivial when the reference defines its outcome (exact value, IEEE bits or error); distinct by (op, operands)",
           "samples": samples, "exhaustive": True, "cases": len(allc), "configs": len(ENVS),
           "reference_unspecified_cases": len(allc) - n_def // len(ENVS), "unspec_shape_disagreements_noted": undis,
           "distinct_outcome_classes": sorted(outs),
           "operand_alphabet": len(FULL if a.tier == "thorough" else QUICK), "enumeration_hash": common.sha(repr(allc))}
    return rep.finish("exploration", cov, assumptions=[
        "reference: Python int/Fraction/float; exact->inexact conversion compared only where it is exactly representable or one IEEE division",
        "mixed n-ary folds, (/ x 0) with inexact x and float formatting are not compared (left unspecified by the property)"])


if __name__ == "__main__":
    sys.exit(main())
