"""maintenance tool: python3 -m vp.prune <ID> – drop known findings of <ID> that the last run (evidence file) did not re-observe."""
import sys, json, os
from .common import VERIF
pid = sys.argv[1]
ev = json.load(open(os.path.join(VERIF, "evidence", pid + ".json")))
seen = set(ev["coverage"]["known_findings_reobserved"])
p = os.path.join(VERIF, "known_findings.json")
d = json.load(open(p))
n0 = len(d["findings"])
d["findings"] = [f for f in d["findings"] if not (f["property"] == pid and f["status"] == "known" and f["signature"] not in seen)]
json.dump(d, open(p, "w"), indent=1, ensure_ascii=False)
print("pruned", n0 - len(d["findings"]))
