"""debug tool: python3 -m vp.probe [--env K=V ...] 'step1' 'step2' ... – run one program on the harness, print the observation and the reference"""
import sys, json
from . import common, c01
env = {}
steps = []
for a in sys.argv[1:]:
    if a.startswith("--env="):
        k, v = a[6:].split("=", 1); env[k] = v
    else:
        steps.append(a)
r = common.run_cases([{"id": 0, "steps": steps}], env=env or None, batch=1, timeout_ms=20000)[0]
print("obs:", c01.observe(r, len(steps)))
try:
    print("ref:", c01.reference(steps))
except Exception as e:
    print("ref failed:", e)
