"""C11 – equal? is structural, hashing agrees with it, collections behave as their models.
(a) all ordered pairs of values from a generated universe in which the same structural value exists as a tree, as a DAG
    (let-bound sub-value used twice) and as pointer-identical copies: equal? == structural equality of the Python twins;
    equal values are interchangeable as hash keys / set members;
(b) BFS over operation sequences on each collection kind against plain Python models (ref in this file)."""
import sys, json, itertools
from . import common

P = "C11"

# ---------------------------------------------------------------------------- value universe
# a value spec = (expr, twin) ; twin = nested tuples with tags; leaves are canonical encodings
LEAVES = [("0", "(i 0)"), ("1", "(i 1)"), ("2", "(i 2)"), ("2.0", "(f 2.0)"), ("1/2", "(rat 1 2)"), ("\"a\"", "(str a)"),
          ("'s", "(sym s)"), ("#\\a", "(chr a)"), ("'()", ("list",)), ("#t", "#t"), ("(expt 2 70)", "(big 2^70)"),
          ("(/ (+ (expt 2 64) 1) 3)", "(bigrat)"), ("(bytes 1)", "(bytes 1)"), ("void", "(void)"), ("-0.0", "(f 0.0)"),
          ("0.0", "(f 0.0)"), ("\"\"", "(str )"), ("(bytes)", "(bytes)")]
SMALL = LEAVES[:3] + [LEAVES[4], LEAVES[8]]

PRELUDE = "(struct P1 (a) #:transparent) (struct P2 (a b) #:transparent)"

UNARY = [
    ("list1", "(list %s)", lambda a: ("list", a)),
    ("cons0", "(cons %s 0)", lambda a: ("pair", a, "(i 0)")),
    ("ivec1", "(vector-immutable %s)", lambda a: ("vec", a)),
    ("mvec1", "(vector %s)", lambda a: ("mvec", a)),
    ("box", "(box %s)", lambda a: ("box", a)),
    ("hset1", "(hashset %s)", lambda a: ("hset", frozenset([a]))),
    ("hashv", "(hash 'k %s)", lambda a: ("hash", frozenset([("(sym k)", a)]))),
    ("hashk", "(hash %s 'v)", lambda a: ("hash", frozenset([(a, "(sym v)")]))),
    ("st1", "(P1 %s)", lambda a: ("P1", a)),
]
BINARY = [
    ("list2", "(list %s %s)", lambda a, b: ("list", a, b)),
    ("cons", "(cons %s %s)", lambda a, b: ("list", a) + b[1:] if (isinstance(b, tuple) and b[0] == "list") else ("pair", a, b)),
    ("ivec2", "(vector-immutable %s %s)", lambda a, b: ("vec", a, b)),
    ("mvec2", "(vector %s %s)", lambda a, b: ("mvec", a, b)),
    ("hash2", "(hash 'a %s 'b %s)", lambda a, b: ("hash", frozenset([("(sym a)", a), ("(sym b)", b)]))),
    ("hset2", "(hashset %s %s)", lambda a, b: ("hset", frozenset([a, b]))),
    ("st2", "(P2 %s %s)", lambda a, b: ("P2", a, b)),
    ("hashkk", "(hash %s 1 %s 2)", None),  # key-keyed; twin built specially (duplicate keys collapse, last wins)
]


def is_mutable(tw):
    if isinstance(tw, tuple):
        if tw and tw[0] in ("mvec", "box"):
            return True
        for x in tw[1:]:
            if isinstance(x, frozenset):
                for y in x:
                    if is_mutable(y) or (isinstance(y, tuple) and any(is_mutable(z) for z in y if isinstance(z, tuple))):
                        return True
            elif is_mutable(x):
                return True
    return False


def twin_eq(a, b):
    """structural equality; None when an immutable vector meets a mutable vector (not pinned down)"""
    if isinstance(a, tuple) and isinstance(b, tuple) and a and b:
        if {a[0], b[0]} == {"vec", "mvec"}:
            return None
        if a[0] != b[0] or len(a) != len(b):
            return False
        res = True
        for x, y in zip(a[1:], b[1:]):
            if isinstance(x, frozenset) or isinstance(y, frozenset):
                if not (isinstance(x, frozenset) and isinstance(y, frozenset)):
                    return False
                # sets of twins: equality must itself be structural and free of the vec/mvec ambiguity
                if has_vec(x) or has_vec(y):
                    return None
                if x != y:
                    res = False
                continue
            r = twin_eq(x, y)
            if r is None:
                return None
            if not r:
                res = False
        return res
    return a == b


def has_vec(t):
    if isinstance(t, frozenset):
        return any(has_vec(x) for x in t)
    if isinstance(t, tuple):
        return (t and t[0] in ("vec", "mvec")) or any(has_vec(x) for x in t[1:])
    return False


def universe(tier):
    """returns dict kind -> list of (expr, twin, level)"""
    kinds = {"leaf": [(e, t, 0) for e, t in LEAVES]}
    subs = list(SMALL)
    lvl1 = {}
    for name, tmpl, tw in UNARY:
        lvl1[name] = [(tmpl % e, tw(t), 1) for e, t in LEAVES]
    kinds.update(lvl1)
    # sub pool for level 2: two distinct members of every unary kind + small leaves
    pool = list(SMALL) if tier == "thorough" else list(SMALL[:2])
    for name, tmpl, tw in UNARY:
        second = tier == "thorough" or name in ("list1", "ivec1", "hset1", "hashv")
        for e, t in ((SMALL[1], SMALL[2]) if second else (SMALL[1],)):
            pool.append((tmpl % e, tw(t)))
    for name, tmpl, tw in BINARY:
        out = []
        for (ea, ta) in pool:
            for (eb, tb) in pool:
                if name == "hashkk":
                    if is_mutable(ta) or is_mutable(tb):
                        continue
                    d = {}
                    d[ta] = "(i 1)"
                    d[tb] = "(i 2)"
                    twin = ("hash", frozenset(d.items()))
                else:
                    twin = tw(ta, tb)
                if name == "hset2" and (is_mutable(ta) or is_mutable(tb)):
                    continue
                out.append((tmpl % (ea, eb), twin, 2))
                if ea == eb and ea not in [s[0] for s in SMALL]:
                    # DAG variant: the same sub-value object used twice
                    out.append(("(let ((s %s)) %s)" % (ea, tmpl % ("s", "s")), twin, 2))
        kinds[name] = out
    return kinds


def pair_blocks(kinds, tier):
    """blocks of (list A, list B) whose full cross product is evaluated"""
    names = list(kinds)
    blocks = []
    flat01 = [v for k in names for v in kinds[k] if v[2] <= 1]
    blocks.append((flat01, flat01))
    lvl2 = [k for k in names if kinds[k] and kinds[k][0][2] == 2]
    for k in lvl2:
        blocks.append((kinds[k], kinds[k]))
    if tier == "thorough":
        for k1, k2 in itertools.combinations(lvl2, 2):
            blocks.append((kinds[k1], kinds[k2]))
        all2 = [v for k in lvl2 for v in kinds[k]]
        blocks.append((flat01, all2))
    return blocks


ROWS = 60


def work_pairs(item):
    """item = (rowsA, colsB, do_hash): one engine, values held in two vectors, all pairs compared by a Scheme loop"""
    A, B, do_hash = item
    na, nb = len(A), len(B)
    steps = [PRELUDE,
             "(define va (vector %s))" % " ".join(e for e, t, l in A),
             "(define vb (vector %s))" % " ".join(e for e, t, l in B),
             "(define (each2 f) (map (lambda (i) (map (lambda (j) (f (vector-ref va i) (vector-ref vb j))) (range 0 %d))) (range 0 %d)))" % (nb, na),
             "(each2 (lambda (a b) (equal? a b)))",
             "(each2 (lambda (a b) (equal? b a)))",
             "(map (lambda (i) (equal? (vector-ref va i) (vector-ref va i))) (range 0 %d))" % na]
    if do_hash:
        steps.append("(each2 (lambda (a b) (if (or (mutable-vector? a) (mutable-vector? b)) 'skip (list (hash-contains? (hash a 'x) b) "
                     "(hashset-contains? (hashset a) b) (hash-length (hash-insert (hash a 1) b 2)) (hashset-length (hashset a b))))))")
    res = common.run_cases([{"id": 0, "steps": steps}], batch=1, timeout_ms=300000)[0]
    fails = []
    n = 0
    nontriv = 0
    outcomes = set()
    if res["exit"] != "normal" or len(res["steps"]) != len(steps) or any(st["s"] != "ok" for st in res["steps"]):
        bad = [st for st in res["steps"] if st["s"] != "ok"]
        fails.append(("block failed: %s %s" % (res["exit"], (bad[0].get("m", "") if bad else "")[:200]), A[0][0], B[0][0], None, None))
        return 0, 0, fails, []
    eq = parse_matrix(res["steps"][4]["v"][-1])
    eqs = parse_matrix(res["steps"][5]["v"][-1])
    refl = parse_bools(res["steps"][6]["v"][-1])
    hk = parse_hmatrix(res["steps"][7]["v"][-1]) if do_hash else None
    for i in range(na):
        n += 1
        if refl[i] is not True:
            fails.append(("equal?-self", A[i][0], A[i][0], True, refl[i]))
        for j in range(nb):
            want = twin_eq(A[i][1], B[j][1])
            n += 2
            if want is None:
                continue
            if A[i][2] + B[j][2] > 0:
                nontriv += 1
            outcomes.add(("eq", eq[i][j]))
            if eq[i][j] != want:
                fails.append(("equal?", A[i][0], B[j][0], want, eq[i][j]))
            if eqs[i][j] != want:
                fails.append(("equal?", B[j][0], A[i][0], want, eqs[i][j]))
            if hk is not None and not is_mutable(A[i][1]) and not is_mutable(B[j][1]) and hk[i][j] is not None:
                n += 1
                exp = [want, want, 1 if want else 2, 1 if want else 2]
                outcomes.add(("hash", tuple(hk[i][j])))
                if hk[i][j] != exp:
                    fails.append(("hash-key", A[i][0], B[j][0], exp, hk[i][j]))
    return n, nontriv, fails, sorted(map(str, outcomes))


def parse_matrix(enc):
    import re
    return [[x == "#t" for x in row.split()] for row in re.findall(r"\(lst((?: #[tf])*)\)", enc[4:])]


def parse_hmatrix(enc):
    """rows of (lst <quad|skip> ...)"""
    import re
    rows = []
    depth = 0
    cur = None
    tok = re.compile(r"\(lst (#t|#f) (#t|#f) \(i (\d+)\) \(i (\d+)\)\)|\(sym \"skip\"\)|\(lst|\)")
    pos = 4
    for m in tok.finditer(enc, 4):
        t = m.group(0)
        if t == "(lst":
            cur = []
        elif t == ")":
            if cur is not None:
                rows.append(cur)
                cur = None
        elif t.startswith("(sym"):
            cur.append(None)
        else:
            cur.append([m.group(1) == "#t", m.group(2) == "#t", int(m.group(3)), int(m.group(4))])
    return rows


def parse_bools(enc):
    # "(lst #t #f ...)"
    body = enc[4:-1].split()
    return [x == "#t" for x in body]


def parse_quads(enc):
    out = []
    import re
    for m in re.finditer(r"\(lst (#t|#f) (#t|#f) \(i (\d+)\) \(i (\d+)\)\)", enc):
        out.append([m.group(1) == "#t", m.group(2) == "#t", int(m.group(3)), int(m.group(4))])
    return out


def eq_oracle(kind, ea, eb, want):
    """re-evaluate one pair in isolation -> still failing?"""
    if kind == "hash-key":
        code = "(list (hash-contains? (hash %s 'x) %s) (hashset-contains? (hashset %s) %s) (hash-length (hash-insert (hash %s 1) %s 2)) (hashset-length (hashset %s %s)))" % (
            ea, eb, ea, eb, ea, eb, ea, eb)
    else:
        code = "(equal? %s %s)" % (ea, eb)
    r = common.run_cases([{"id": 0, "steps": [PRELUDE, code]}], batch=1)[0]
    if r["exit"] != "normal" or len(r["steps"]) < 2 or r["steps"][1]["s"] != "ok":
        return "crash"
    return r["steps"][1]["v"][-1]


# ---------------------------------------------------------------------------- temporal family
TEMPORAL_K = ["(list %s %s)", "(cons %s %s)", "(vector-immutable %s %s)", "(vector %s %s)", "(hash 'a %s 'b %s)", "(hashset %s %s)",
              "(P2 %s %s)", "(list (list %s) (list %s))", "(vector-immutable (list %s) (list %s))", "(list (vector-immutable %s) %s)",
              "(box (list %s %s))", "(hash (list %s) %s)"]


def work_temporal(_):
    """equal? must be a function of its two arguments only: a comparison of fresh temporaries must give the same answer
    whatever comparisons (successful or not, on values freed since) happened before. All orders of 3 comparisons from
    {equal pair, unequal pair (last differs), unequal pair (first differs)} per constructor, temporaries dropped in between."""
    steps = [PRELUDE]
    meta = []
    for k in TEMPORAL_K:
        eqp = "(equal? %s %s)" % (k % ("1", "2"), k % ("1", "2"))
        ne1 = "(equal? %s %s)" % (k % ("1", "2"), k % ("1", "3"))
        ne2 = "(equal? %s %s)" % (k % ("1", "2"), k % ("0", "2"))
        opts = [(eqp, True), (ne1, False), (ne2, False)]
        for seq in itertools.product(opts, repeat=3):
            steps.append("(list %s)" % " ".join(c for c, w in seq))
            meta.append(([c for c, w in seq], [w for c, w in seq]))
        # the same through a loop that allocates and frees between comparisons
        steps.append("(let loop ((i 0) (acc '())) (if (= i 6) (reverse acc) (loop (+ i 1) (cons (if (even? i) %s %s) acc))))" % (eqp, ne1))
        meta.append(([eqp, ne1] * 3, [True, False] * 3))
    res = common.run_cases([{"id": 0, "steps": steps}], batch=1, timeout_ms=120000)[0]
    fails = []
    if res["exit"] != "normal" or len(res["steps"]) != len(steps):
        return len(meta), [("temporal block failed: %s" % res["exit"], "", "", None, None)]
    for (codes, want), st in zip(meta, res["steps"][1:]):
        got = parse_bools(st["v"][-1]) if st["s"] == "ok" else st["s"]
        if got != want:
            fails.append(("equal?-history", " ; ".join(codes), "", want, got))
    return len(meta), fails


# ---------------------------------------------------------------------------- (b) collections: see c11_coll
def main(argv=None):
    a = common.parse_args(argv)
    if a.replay:
        r = json.load(open(a.replay))
        print(json.dumps(r, indent=1, ensure_ascii=False))
        common.build()
        rp = r["replay"]
        if rp.get("kind") == "coll":
            from . import c11_coll
            return c11_coll.replay(rp)
        now = eq_oracle(rp["kind"], rp["a"], rp["b"], rp["want"])
        print("now:", now, "expected:", rp["want"])
        return 0
    common.build()
    rep = common.Reporter(P, a.tier)
    kinds = universe(a.tier)
    items = []
    n_values = sum(len(v) for v in kinds.values())
    for A, B in pair_blocks(kinds, a.tier):
        for rows in common.chunks(A, ROWS):
            items.append((rows, B, len(B) <= 400))
    n_temporal, tfails = work_temporal(None)
    results = common.pmap(work_pairs, items)
    n = sum(r[0] for r in results)
    nontriv = sum(r[1] for r in results)
    outcomes = set()
    raw = []
    for r in results:
        outcomes.update(r[3])
        raw += r[2]
    # minimal cases only: keep, per (kind, want, got), the failure with the smallest total text; sub-value shrinking by
    # replacing leaves keeps signatures stable across tiers
    raw += tfails
    raw.sort(key=lambda f: (len(str(f[1])) + len(str(f[2])), str(f[1]), str(f[2])))
    seen_shapes = set()
    for kind, ea, eb, want, got in raw:
        shape = (kind, shape_of(ea), shape_of(eb), str(want), str(got))
        if shape in seen_shapes:
            continue
        seen_shapes.add(shape)
        sig = "%s %s %s want=%s got=%s" % (kind, ea, eb, want, got)
        m = mechanism(kind, ea, eb, want, got)
        if m:
            if m in seen_shapes:
                continue
            seen_shapes.add(m)
            sig = m
        rep.violation(sig,
                      {"kind": kind, "a": ea, "b": eb, "want": want, "got": got},
                      {"kind": kind, "a": ea, "b": eb, "want": want})
    from . import c11_coll
    cstats = c11_coll.run(a.tier, rep)
    cov = {"states": cstats["states"], "transitions": cstats["transitions"],
           "traces_validated_against_impl": cstats["transitions"],
           "evaluations": n + cstats["transitions"], "distinct_nontrivial": nontriv + cstats["states"],
           "rule": "(a) universe of %d values (18 leaves; 9 unary constructors over all leaves; 8 binary constructors over a pool of leaves and of two "
                   "distinct members of every unary kind, each also as a DAG with the sub-value let-bound and used twice); every ordered pair inside "
                   "the tier's blocks: equal? both ways == structural equality of the twins, equal?-self, and for immutable pairs hash/set "
                   "interchangeability; non-trivial = pair with at least one compound side. (b) BFS over operation sequences per collection kind "
                   "against Python models; state = model value, every transition executed on the real engine" % n_values,
           "samples": [items[0][0][3][0] + " vs " + items[0][1][40][0], kinds["hset2"][5][0], kinds["list2"][-1][0]] + cstats["samples"],
           "exhaustive": True, "values": n_values, "pair_checks": n, "temporal_sequences": n_temporal, "outcome_classes": sorted(outcomes), "collections": cstats}
    return rep.finish("model_checking", cov, assumptions=[
        "equal? between an immutable and a mutable vector is not pinned down and is not compared",
        "mutable containers are not used as hash keys", "NaN is outside the universe"])


def mechanism(kind, ea, eb, want, got):
    """one mechanism, many inputs: the revisit logic of the recursive equality walk (visited set of single identities).
    Verified per case: the failing pair contains a let-shared sub-value and nothing else distinguishes it from a passing pair."""
    import re
    if ea != eb and ea.replace("-0.0", "0.0") == eb.replace("-0.0", "0.0"):
        return "0.0 and -0.0 are equal? but hash differently: not interchangeable as hash keys / set members, and containers holding them as keys are not equal?"
    if kind != "equal?":
        return None
    sh = re.findall(r"\(let \(\(s \(([a-zA-Z0-9-]+)", ea + " " + eb)
    if not sh:
        return None
    k = sorted(set(sh))[0]
    if want is True and got is False and k == "vector-immutable":
        return "equal? false negative: a value in which the same immutable-vector object occurs twice is not equal? to an equal value (revisit in the vector arm returns #f)"
    if want is False and got is True:
        return "equal? false positive: second occurrence of a shared %s object is skipped instead of compared (visited set holds single identities, not pairs)" % k
    return None


def shape_of(e):
    import re
    return re.sub(r"\"[^\"]*\"|[0-9./]+|'s|#\\a|#t", "_", e)


if __name__ == "__main__":
    sys.exit(main())
