"""C13 – syntax-rules macros are hygienic and referentially transparent; pattern matching binds exactly the matched sub-forms.
(1) matching: patterns (literals, one and two ellipsis levels, ellipsis after a compound pattern, trailing patterns after an ellipsis,
    dotted tails, zero matches) x templates built from the pattern's variables (incl. a plain variable inside a repeated sub-template)
    x every argument tuple up to length 3 over a data pool, with and without a fall-back rule; the template is quoted, so the expected
    datum comes from vp/ref_macro.py; cases run many-per-engine so that state left by earlier expansions is exercised;
(2) hygiene as a metamorphic relation: the result of a program must not change when a template-introduced binder, or a use-site binder
    that shadows a free identifier of the template, is re-spelled with a name that cannot collide (binder kinds let / let* / letrec /
    lambda / named let / internal define / do; free identifiers = primitives, global procedures, other macros; nested, recursive and
    macro-defining macros; definition in the same unit, an earlier unit, a required module, a module chain with contract/out)."""
import sys, json, itertools, os
from . import common, ref_macro

P = "C13"

# ------------------------------------------------------------------ (1) matching
# argument patterns (after the keyword) as data; variables are unique per pattern
PATTERNS = [
    ["a"], ["a", "b"], ["a", "b", "c"], ["a", "..."], ["a", "b", "..."], ["a", "...", "b"], ["a", "...", "b", "c"], ["a", "b", "...", "c"],
    [["a", "b"]], [["a", "b"], "c"], [["a", "..."]], [["a", "..."], "b"], [["a", "b"], "..."], [["a", "b", "..."], "..."],
    [["a", "..."], "..."], ["x", ["a", "..."], "..."], [["a", ["b", "..."]], "..."], ["lit", "a"], ["a", "lit", "b"], ["lit"], ["a", "lit", "..."] if False else ["lit", "a", "..."],
    [1, "a"], ["_", "a"], ["a", "_", "..."] if False else ["_", "a", "..."], ("dot", ["a"], "r"), ("dot", ["a", "b"], "r"), ("dot", [], "r"),
    [("dot", ["a"], "b")], [("dot", ["a"], "b"), "..."], [[["a"]]], [["a"], ["b"]], [[], "a"], ["a", []],
]
POOL = [1, "a", "lit", [1, "b"], ["lit", 1], [], [[1, 2], ["a"]], 2, ("dot", [1], 2), [1, [2, 3]], "x"]


def depth_vars(pat, lits, d=0, out=None):
    out = {} if out is None else out
    if isinstance(pat, str):
        if pat not in lits and pat not in ("...", "_"):
            out[pat] = d
    elif isinstance(pat, list):
        for i, p in enumerate(pat):
            if p == "...":
                continue
            dd = d + (1 if i + 1 < len(pat) and pat[i + 1] == "..." else 0)
            depth_vars(p, lits, dd, out)
    elif isinstance(pat, tuple):
        for p in pat[1]:
            depth_vars(p, lits, d, out)
        depth_vars(pat[2], lits, d, out)
    return out


def templates_for(pat):
    dv = depth_vars(pat, {"lit"})
    vs = sorted(dv)
    ts = []

    def with_ell(v):
        return [v] + ["..."] * dv[v] if dv[v] < 2 else [[v, "..."], "..."]
    flat = []
    for v in vs:
        flat += with_ell(v)
    ts.append(flat)                                   # every variable, flattened
    ts.append(["k"] + list(reversed(flat)) if False else ["k"] + flat + ["k"])
    d0 = [v for v in vs if dv[v] == 0]
    d1 = [v for v in vs if dv[v] == 1]
    d2 = [v for v in vs if dv[v] == 2]
    for v in d1:
        ts.append([[v, "k"], "..."])                   # constant inside a repeated sub-template
        for w in d0:
            ts.append([[w, v], "..."])                 # a plain variable inside a repeated sub-template
        for w in d1:
            if w != v:
                ts.append([[v, w], "..."])             # two sequences zipped
    for v in d2:
        ts.append([[v, "..."], "..."])
        for w in d0 + d1:
            if dv[w] == 0:
                ts.append([[w, v, "..."], "..."])
            else:
                ts.append([[w, v, "..."], "..."])
    for v in d0:
        ts.append(("dot", [v], "tail"))
        ts.append([[v], [v, v]])
    if not vs:
        ts.append(["const"])
    out = []
    for t in ts:
        if t not in out:
            out.append(t)
    return out


def matching_cases(tier):
    cases = []
    maxlen = 3
    pool = POOL if tier == "thorough" else POOL[:8]
    tuples = [[]]
    for n in range(1, maxlen + 1):
        tuples += [list(t) for t in itertools.product(pool, repeat=n)]
    if tier != "thorough":
        tuples = [t for t in tuples if len(t) < 3] + [t for k, t in enumerate(tuples) if len(t) == 3 and k % 3 == 0]
    for pi, pat in enumerate(PATTERNS):
        for ti, tmpl in enumerate(templates_for(pat)):
            for fallback in (False, True):
                if fallback and (pi + ti) % 2:
                    continue
                for args in tuples:
                    cases.append((pat, tmpl, fallback, args))
    return cases


def pattern_text(pat):
    if isinstance(pat, tuple):
        return "(_ " + " ".join(ref_macro.show(x) for x in pat[1]) + " . " + ref_macro.show(pat[2]) + ")"
    return "(_" + "".join(" " + ref_macro.show(x) for x in pat) + ")"


def work_matching(lst):
    """many macro definitions and uses in one engine (sequentially, one child per chunk); mismatches are re-run alone"""
    steps, meta = [], []
    for k, (pat, tmpl, fallback, args) in lst:
        name = "m%d" % k
        rules = [(pat, tmpl)] + ([(("dot", [], "rest"), ["fallback", "rest"])] if fallback else [])
        try:
            want = ref_macro.enc(ref_macro.expand([(p if not isinstance(p, tuple) else p, t) for p, t in rules], {"lit"}, args))
        except ref_macro.NoMatch:
            want = "ERR"
        except ref_macro.BadTemplate:
            continue
        d = "(define-syntax %s (syntax-rules (lit) [%s (quote %s)]%s))" % (
            name, pattern_text(pat), ref_macro.show(tmpl), " [(_ . rest) (quote (fallback rest))]" if fallback else "")
        u = "(%s%s)" % (name, "".join(" " + ref_macro.show(x) for x in args))
        steps.append(d + " " + u)
        meta.append((k, d, u, want))
    res = common.run_cases([{"id": 0, "steps": steps}], batch=1, timeout_ms=120000)[0]
    fails = []
    got_all = []
    if res["exit"] != "normal":
        # find the culprit by running the cases one per child
        got_all = None
    for i, (k, d, u, want) in enumerate(meta):
        if got_all is None or i >= len(res["steps"]):
            r1 = common.run_cases([{"id": 0, "steps": [d + " " + u]}], batch=1, timeout_ms=20000)[0]
            got = "CRASH(%s)" % r1["exit"] if r1["exit"] != "normal" else obs(r1["steps"][0])
            if got != want:
                fails.append((d, u, want, got, "alone"))
            continue
        got = obs(res["steps"][i])
        if got != want:
            r1 = common.run_cases([{"id": 0, "steps": [d + " " + u]}], batch=1, timeout_ms=20000)[0]
            got1 = "CRASH(%s)" % r1["exit"] if r1["exit"] != "normal" else obs(r1["steps"][0])
            if got1 != want:
                fails.append((d, u, want, got1, "alone"))
            else:
                # only wrong after the earlier expansions of this engine: find a shortest priming prefix (single earlier case)
                prime = None
                for j in range(i):
                    r2 = common.run_cases([{"id": 0, "steps": [meta[j][1] + " " + meta[j][2], d + " " + u]}], batch=1, timeout_ms=20000)[0]
                    if r2["exit"] == "normal" and len(r2["steps"]) == 2 and obs(r2["steps"][1]) != want:
                        prime = meta[j][1] + " " + meta[j][2]
                        break
                fails.append((d, u, want, got, "after: " + (prime or "<the earlier expansions of its batch>")))
    return len(meta), fails


def obs(st):
    if st["s"] == "ok":
        return st["v"][-1]
    return "ERR" if st["s"] == "err" else "PANIC"


# ------------------------------------------------------------------ (2) hygiene (metamorphic)
MODDIR = os.path.join(common.VERIF, ".work", "c13mod")


def hygiene_programs():
    """list of (family, steps-with-{B}/{U}/{F}, collide dict, fresh dict)"""
    out = []
    binders = [
        ("let", "(let (({B} a)) (if {B} {B} b))"),
        ("let*", "(let* (({B} a) (zother b)) (if {B} {B} zother))"),
        ("letrec", "(letrec (({B} (lambda () a))) (if ({B}) ({B}) b))"),
        ("lambda", "((lambda ({B}) (if {B} {B} b)) a)"),
        ("named-let", "(let {B} ((zi 0)) (if (< zi 1) ({B} (+ zi 1)) (if a a b)))"),
        ("internal-define", "(let () (define {B} a) (if {B} {B} b))"),
        ("do", "(do (({B} 0 (+ {B} 1))) ((= {B} 1) (if a a b)))"),
        ("let-two", "(let (({B} a) (zx2 b)) (list {B} zx2))"),
    ]
    uses = [
        ("let", "(let (({U} 5)) (mac #f {U}))"),
        ("lambda", "((lambda ({U}) (mac #f {U})) 5)"),
        ("define", "(define (f {U}) (mac #f {U})) (f 5)"),
        ("global", "(define {U} 5) (mac #f {U})"),
        ("expr", "(let (({U} 5)) (mac #f (+ {U} 1)))"),
        ("nested-let", "(let (({U} 5)) (let ((y {U})) (mac #f (list {U} y))))"),
        ("closure", "(let (({U} 5)) ((lambda () (mac #f {U}))))"),
    ]
    spell = [("tmp", "tmp"), ("t", "t"), ("x", "x"), ("i", "i"), ("other", "other")]
    for bk, tmpl in binders:
        for uk, use in uses:
            for b, u in spell:
                d = "(define-syntax mac (syntax-rules () [(_ a b) %s]))" % tmpl
                out.append(("binder/%s/%s" % (bk, uk), [d + " " + use], {"B": b, "U": u}, {"B": "zzfreshb", "U": "zzfreshu"}))
                out.append(("binder-earlier-unit/%s/%s" % (bk, uk), [d, use], {"B": b, "U": u}, {"B": "zzfreshb", "U": "zzfreshu"}))
    # free identifiers of the template shadowed at the use site
    frees = [("list", "(list a b)"), ("car", "(car (cons a b))"), ("+", "(+ a b)"), ("helper", "(helper a b)"), ("if", "(if a b 0)"),
             ("other-macro", "(inner a b)"), ("cons", "(cons a (cons b '()))"), ("not", "(not (not a))"), ("vector", "(vector a b)")]
    shadows = [("let", "(let (({F} (lambda args 'shadowed))) (mac 1 2))"), ("lambda", "((lambda ({F}) (mac 1 2)) (lambda args 'shadowed))"),
               ("internal-define", "(let () (define ({F} . args) 'shadowed) (mac 1 2))"), ("let-value", "(let (({F} 99)) (mac 1 2))"),
               ("fn-param", "(define (user {F}) (mac 1 2)) (user (lambda args 'shadowed))")]
    for fname, body in frees:
        for sk, use in shadows:
            if fname == "if":
                continue  # reserved keyword: not shadowable by documentation
            spelled = {"helper": "helper", "other-macro": "inner"}.get(fname, fname)
            pre = "(define (helper x y) (list 'helper x y)) (define-syntax inner (syntax-rules () [(_ p q) (list 'inner p q)]))"
            d = "(define-syntax mac (syntax-rules () [(_ a b) %s]))" % body
            if fname == "other-macro" and sk != "let-value" and sk != "let":
                pass
            out.append(("free/%s/%s" % (fname, sk), [pre, d + " " + use], {"F": spelled}, {"F": "zzfreshf"}))
            out.append(("free-same-unit/%s/%s" % (fname, sk), [pre + " " + d + " " + use], {"F": spelled}, {"F": "zzfreshf"}))
    # a literal of the macro spelled like a use-site binding: inside the scope of that binding the identifier is a variable, not the keyword,
    # however many scopes lie in between (re-spelling the literal AND the user's binding together must not change the result)
    lit_uses = [("let", "(let (({U} 9)) (kw 1 {U} 2))"), ("lambda", "((lambda ({U}) (kw 1 {U} 2)) 9)"), ("let-let", "(let (({U} 9)) (let ((y 1)) (kw y {U} 2)))"),
                ("lambda-let", "((lambda ({U}) (let ((y 1)) (kw y {U} 2))) 9)"), ("let-lambda-let", "(let (({U} 9)) ((lambda (z) (let ((y 1)) (kw y {U} z))) 2))"),
                ("let-let-let", "(let (({U} 9)) (let ((y 1)) (let ((w 2)) (kw y {U} w))))"), ("internal-define", "(let () (define {U} 9) (let ((y 1)) (kw y {U} 2)))"),
                ("unshadowed", "(let ((q 9)) (kw 1 {L} 2))"), ("cond-like", "((lambda ({U}) (let ((y #f)) (my-cond (y 'first) ({U} 'second)))) #f)")]
    for litname in ("=>", "else", "lit"):
        d = ("(define-syntax kw (syntax-rules ({L}) [(_ a {L} b) (list 'arrow a b)] [(_ a b c) (list 'plain a b c)])) "
             "(define-syntax my-cond (syntax-rules ({L}) [(_) 'none] [(_ ({L} e)) e] [(_ (c e) rest ...) (if c e (my-cond rest ...))]))")
        for uk, use in lit_uses:
            # colliding: the user's variable is spelled like the literal; fresh: literal and variable differ
            out.append(("literal-shadowed/%s/%s" % (litname, uk), [d + " " + use], {"L": litname, "U": litname}, {"L": litname, "U": "zzfreshu"}))
            out.append(("literal-shadowed-earlier-unit/%s/%s" % (litname, uk), [d, use], {"L": litname, "U": litname}, {"L": litname, "U": "zzfreshu"}))
    # free identifiers of the template inside repeated sub-templates, shadowed at the use site by a binding to another global procedure
    pre2 = "(define (tag x y) (list 'T x y)) (define (other x y) (list 'captured x y))"
    ell_templates = [("sub-template", "(_ a ...)", "(list 'T ({F} a 1) ...)", "(mac 1 2)"), ("begin-sub-template", "(_ a ...)", "(begin ({F} a 1) ...)", "(mac 1 2)"),
                     ("nested-ellipsis", "(_ (a ...) ...)", "(list (list ({F} a 1) ...) ...)", "(mac (1 2) (3))"), ("no-ellipsis", "(_ a b)", "(list ({F} a 1) ({F} b 1))", "(mac 1 2)"),
                     ("argument-uses-name", "(_ a ...)", "(list ({F} a 1) ...)", "(mac ({F} 9 9))")]
    ell_shadows = [("let", "(let (({F} other)) %s)"), ("lambda", "((lambda ({F}) %s) other)"), ("let-let", "(let (({F} other)) (let ((y 1)) %s))"), ("define-param", "(define (user {F}) %s) (user other)")]
    for tk, pat, tmpl, use in ell_templates:
        for sk, sh in ell_shadows:
            d = "(define-syntax mac (syntax-rules () [%s %s]))" % (pat, tmpl)
            # the template's free identifier is always `tag`; only the user's binder (and the user's own references) are re-spelled
            dd = d.replace("{F}", "tag")
            out.append(("free-in-ellipsis/%s/%s" % (tk, sk), [pre2, dd + " " + (sh % use)], {"F": "tag"}, {"F": "zzfreshf"}))
            out.append(("free-in-ellipsis-same-unit/%s/%s" % (tk, sk), [pre2 + " " + dd + " " + (sh % use)], {"F": "tag"}, {"F": "zzfreshf"}))
    # nested / recursive / macro-defining macros introducing the same spelling
    out += [
        ("nested/template-uses-macro-with-same-binder",
         ["(define-syntax inner (syntax-rules () [(_ e) (let (({B} 1)) (+ {B} e))])) (define-syntax outer (syntax-rules () [(_ e) (let (({B} 10)) (inner (+ {B} e)))])) (outer 100)"],
         {"B": "t"}, {"B": "zzfreshb"}),
        ("nested/two-levels-and-user", ["(define-syntax inner (syntax-rules () [(_ e) (let (({B} 1)) (+ {B} e))])) (define-syntax outer (syntax-rules () [(_ e) (let (({B} 10)) (inner (+ {B} e)))])) "
                                        "(let (({U} 1000)) (outer {U}))"], {"B": "t", "U": "t"}, {"B": "zzfreshb", "U": "zzfreshu"}),
        ("nested/macro-in-argument", ["(define-syntax m1 (syntax-rules () [(_ e) (let (({B} 1)) (list {B} e))])) (let (({U} 7)) (m1 (m1 {U})))"], {"B": "v", "U": "v"}, {"B": "zzfreshb", "U": "zzfreshu"}),
        ("recursive/my-or", ["(define-syntax my-or (syntax-rules () [(_) #f] [(_ e) e] [(_ e r ...) (let (({B} e)) (if {B} {B} (my-or r ...)))])) (let (({U} 5)) (my-or #f #f {U}))"],
         {"B": "t", "U": "t"}, {"B": "zzfreshb", "U": "zzfreshu"}),
        ("recursive/depth3", ["(define-syntax my-or (syntax-rules () [(_) #f] [(_ e) e] [(_ e r ...) (let (({B} e)) (if {B} {B} (my-or r ...)))])) (let (({U} 5)) (my-or #f #f #f {U}))"],
         {"B": "t", "U": "t"}, {"B": "zzfreshb", "U": "zzfreshu"}),
        ("macro-defining-macro", ["(define-syntax def-getter (syntax-rules () [(_ name val) (define-syntax name (syntax-rules () [(_) (let (({B} val)) {B})]))])) (def-getter get5 5) (let (({U} 9)) (list (get5) {U}))"],
         {"B": "t", "U": "t"}, {"B": "zzfreshb", "U": "zzfreshu"}),
        ("argument-spelled-like-pattern-variable/ellipsis", ["(define {U} 99) (define-syntax m (syntax-rules () [(_ a b ...) (list (list b a) ...)])) (m 1 {U} (+ {U} 1))"], {"U": "a"}, {"U": "zzfreshu"}),
        ("argument-spelled-like-pattern-variable/nested", ["(define {U} 99) (define-syntax m (syntax-rules () [(_ a (b c) ...) (list (list b c a) ...)])) (m 1 ({U} {U}) (2 (+ {U} 1)))"], {"U": "a"}, {"U": "zzfreshu"}),
        ("argument-spelled-like-pattern-variable/plain", ["(define {U} 99) (define-syntax m (syntax-rules () [(_ a b) (list b a)])) (m 1 {U})"], {"U": "a"}, {"U": "zzfreshu"}),
        ("argument-spelled-like-other-pattern-variable", ["(define {U} 99) (define-syntax m (syntax-rules () [(_ a b) (list a b)])) (m {U} 1)"], {"U": "b"}, {"U": "zzfreshu"}),
        ("two-ellipses-in-one-list", ["(define-syntax m (syntax-rules () [(_ (a b) ...) (let (({B} 0)) (list a ... {B} b ...))])) (let (({U} 7)) (m (1 {U}) ({U} 4)))"], {"B": "t", "U": "t"}, {"B": "zzfreshb", "U": "zzfreshu"}),
        ("swap", ["(define-syntax swap! (syntax-rules () [(_ p q) (let (({B} p)) (set! p q) (set! q {B}))])) (let (({U} 1) (other 2)) (swap! {U} other) (list {U} other))"],
         {"B": "tmp", "U": "tmp"}, {"B": "zzfreshb", "U": "zzfreshu"}),
        ("while-loop-binder", ["(define-syntax my-while (syntax-rules () [(_ c body ...) (let {B} () (when c body ... ({B})))])) (let (({U} 0)) (my-while (< {U} 3) (set! {U} (+ {U} 1))) {U})"],
         {"B": "loop", "U": "loop"}, {"B": "zzfreshb", "U": "zzfreshu"}),
    ]
    return out


def module_programs():
    """(family, files dict, main steps with {F}); the user's own binding {F} must not capture the module macro's free identifier"""
    base_plain = "(provide f)\n(define (f x) (list 'base x))\n"
    base_contract = "(provide (contract/out f (->/c number? any/c)))\n(define (f x) (list 'base x))\n"
    mid = "(require \"base.scm\")\n(provide call-f)\n(define-syntax call-f (syntax-rules () [(_ x) (f x)]))\n"
    mid2 = "(require \"base.scm\")\n(provide call-f f)\n(define-syntax call-f (syntax-rules () [(_ x) (f x)]))\n"
    direct = "(provide call-f)\n(define (f x) (list 'base x))\n(define-syntax call-f (syntax-rules () [(_ x) (f x)]))\n"
    out = []
    for bname, base in (("plain", base_plain), ("contract-out", base_contract)):
        out.append(("module-chain/%s/user-defines-same-name" % bname, {"base.scm": base, "mid.scm": mid},
                    ["(require \"{DIR}/mid.scm\")", "(define ({F} x) 'user)", "(list (call-f 250) ({F} 1))"]))
        out.append(("module-chain/%s/user-let-shadows" % bname, {"base.scm": base, "mid.scm": mid},
                    ["(require \"{DIR}/mid.scm\")", "(let (({F} (lambda (x) 'user))) (list (call-f 250) ({F} 1)))"]))
        out.append(("module-chain/%s/same-unit" % bname, {"base.scm": base, "mid.scm": mid},
                    ["(require \"{DIR}/mid.scm\") (define ({F} x) 'user) (list (call-f 250) ({F} 1))"]))
    out.append(("module-direct/user-defines-same-name", {"mid.scm": direct}, ["(require \"{DIR}/mid.scm\")", "(define ({F} x) 'user)", "(list (call-f 250) ({F} 1))"]))
    out.append(("module-direct/user-let-shadows", {"mid.scm": direct}, ["(require \"{DIR}/mid.scm\")", "(let (({F} (lambda (x) 'user))) (list (call-f 250) ({F} 1)))"]))
    return out


def subst(steps, d):
    out = []
    for s in steps:
        for k, v in d.items():
            s = s.replace("{" + k + "}", v)
        out.append(s)
    return out


def run_prog(steps):
    r = common.run_cases([{"id": 0, "steps": steps}], batch=1, timeout_ms=30000)[0]
    if r["exit"] != "normal":
        return "CRASH(%s)" % r["exit"]
    last = r["steps"][-1]
    bad = [s for s in r["steps"] if s["s"] == "panic"]
    if bad:
        return "PANIC"
    return obs(last)


def work_hygiene(lst):
    fails = []
    for fam, steps, collide, fresh in lst:
        a = run_prog(subst(steps, collide))
        b = run_prog(subst(steps, fresh))
        if a != b or a in ("PANIC",) or a.startswith("CRASH"):
            fails.append((fam, subst(steps, collide), subst(steps, fresh), a, b))
    return len(lst), fails


def work_modules(lst):
    fails = []
    for i, (fam, files, steps) in lst:
        res = []
        for name in ("f", "zzfreshf"):
            d = os.path.join(MODDIR, "%d_%s" % (i, name))
            os.makedirs(d, exist_ok=True)
            for fn, txt in files.items():
                open(os.path.join(d, fn), "w").write(txt)
            res.append(run_prog([s.replace("{DIR}", d).replace("{F}", name) for s in steps]))
        if res[0] != res[1].replace("zzfreshf", "f") or res[0] in ("PANIC",) or res[0].startswith("CRASH"):
            fails.append((fam, [s.replace("{F}", "f") for s in steps], files, res[0], res[1]))
    return len(lst), fails


def main(argv=None):
    a = common.parse_args(argv)
    if a.replay:
        return common.replay_eval(a.replay)
    common.build()
    rep = common.Reporter(P, a.tier)
    # (1)
    mc = matching_cases(a.tier)
    mres = common.pmap(work_matching, common.chunks(list(enumerate(mc)), 150))
    n_match = sum(r[0] for r in mres)
    mf = sorted([f for r in mres for f in r[1]], key=lambda f: (len(f[0]) + len(f[1]), f[0], f[1]))
    seen = set()
    for d, u, want, got, how in mf:
        import re
        key = (re.sub(r"m\d+", "m", d), "alone" if how == "alone" else "history", "ERR" if want == "ERR" else "VAL", got if got in ("ERR", "PANIC") else "VAL")
        if key in seen:
            continue
        seen.add(key)
        rep.violation("match %s %s => want %s got %s [%s]" % (re.sub(r"m\d+", "m", d), re.sub(r"m\d+", "m", u), want, got, re.sub(r"m\d+", "m", how)[:200]),
                      {"define": d, "use": u, "want": want, "got": got, "how": how},
                      {"case": {"steps": ([how[7:]] if how.startswith("after: (") else []) + [d + " " + u]}, "env": None})
    # (2)
    hp = hygiene_programs()
    hres = common.pmap(work_hygiene, common.chunks(hp, 20))
    n_hyg = sum(r[0] for r in hres)
    hseen = set()
    for fam, pc, pf, ra, rb in sorted([f for r in hres for f in r[1]], key=lambda f: (f[0], len(" ".join(f[1])))):
        key = (fam, ra if ra in ("ERR", "PANIC") else "VAL", rb if rb in ("ERR", "PANIC") else "VAL")
        if key in hseen:
            continue
        hseen.add(key)
        rep.violation("hygiene %s :: %s => %s, with fresh spellings %s" % (fam, " | ".join(pc), ra, rb),
                      {"family": fam, "colliding": pc, "fresh": pf, "colliding_result": ra, "fresh_result": rb}, {"cases": [{"steps": pc}, {"steps": pf}], "env": None})
    mp = module_programs()
    mres2 = common.pmap(work_modules, common.chunks(list(enumerate(mp)), 2))
    n_mod = sum(r[0] for r in mres2)
    for fam, steps, files, ra, rb in sorted([f for r in mres2 for f in r[1]], key=lambda f: f[0]):
        rep.violation("hygiene %s :: %s => %s, with a fresh user name %s" % (fam, " | ".join(steps), ra, rb),
                      {"family": fam, "files": files, "steps": steps, "result": ra, "fresh": rb}, {"case": {"steps": steps}, "files": files, "env": None})
    cov = {"evaluations": n_match + 2 * n_hyg + 2 * n_mod, "distinct_nontrivial": n_match + n_hyg + n_mod,
           "rule": "(1) %d argument patterns x templates derived from the pattern's variables x every argument tuple up to length 3 over a %d-element data pool "
                   "(quick: every third triple) x {with, without fall-back rule}; quoted templates, expected datum from vp/ref_macro.py, 150 cases per engine so "
                   "that earlier expansions can influence later ones (then re-run alone and with single priming cases); (2) %d hygiene programs (8 binder kinds x "
                   "7 use sites x 5 spellings, in one and in two compilation units; 8 free identifiers x 5 shadowing forms; nested / recursive / "
                   "macro-defining macros) and %d module programs, each run with colliding and with non-colliding spellings: results must be identical"
                   % (len(PATTERNS), len(POOL if a.tier == "thorough" else POOL[:8]), n_hyg, n_mod),
           "samples": [pattern_text(mc[1000][0]) + " -> " + ref_macro.show(mc[1000][1]) + " on " + ref_macro.show(mc[1000][3]), " | ".join(subst(hp[7][1], hp[7][2])), mp[0][2][-1]],
           "exhaustive": True, "matching_cases": n_match, "hygiene_programs": n_hyg, "module_programs": n_mod}
    return rep.finish("exploration", cov, assumptions=["reference matcher: vp/ref_macro.py (R7RS 4.3.2)", "reserved keywords (if, define, ...) are not used as user binders"])


if __name__ == "__main__":
    sys.exit(main())
