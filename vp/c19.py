"""C19 – unreachable mutable storage (incl. cycles) is reclaimed; bounded live set => bounded memory; dead weak boxes report so.
(a) explicit-state BFS over heap-graph histories on the real engine: events = allocate box / mutable vector / mutable struct into one of 3
    global roots (by set! or by re-define), link / self-link / unlink, drop a root, capture in a closure, capture in a continuation, drop
    those, self-capturing closure garbage, garbage made by a thread that has finished, weak box, full collection; at most 4 objects alive or
    pending; state = canonical form of a Python twin of the heap graph.  After EVERY event, for both free lists: alloc_count == number of
    free slots and the slot under the cursor is free; after every collection: slots in use == baseline + cost of exactly the objects the
    twin says are reachable, and a weak box whose target is unreachable answers #f.  Also with a forced full collection at every allocation
    (hook H4) instead of explicit collections.
(b) boundedness: every garbage pattern (acyclic, cycles of length 1..4 through each container kind, closure cycles, garbage held by a dropped
    continuation / finished thread / shadowed global) in a loop with bounded live set: the number of heap slots sampled over N iterations
    for a ladder of N must stop growing (max over the last rung <= max over the previous rung + one growth chunk), 1 and 2 threads."""
import sys, json, itertools
from . import common

P = "C19"
PRE = ("(struct MNode (next) #:mutable) (define r0 #f) (define r1 #f) (define r2 #f) (define clo #f) (define k #f) (define w #f) "
       "(define (capture o) (call/cc (lambda (c) (set! k c))) void) "
       "(define (stats) (#%verif-heap-stats))")
KINDS = ("box", "vec", "struct")
MK = {"box": "(box 0)", "vec": "(vector 0 0)", "struct": "(MNode 0)"}
SETF = {"box": "(set-box! {a} {v})", "vec": "(vector-set! {a} 0 {v})", "struct": "(set-MNode-next! {a} {v})"}
MAXOBJ = 4


class Twin:
    def __init__(self):
        self.objs = {}       # id -> [kind, target or None]
        self.roots = [None, None, None]
        self.clo = None
        self.k = None
        self.w = None        # id of the weak box's target, "dead", or None
        self.hidden = 0      # garbage value slots not modelled as objects (weak box's inner box, closure cycles, thread garbage)
        self.next = 0

    def copy(self):
        t = Twin()
        t.objs = {i: list(o) for i, o in self.objs.items()}
        t.roots = list(self.roots)
        t.clo, t.k, t.w, t.hidden, t.next = self.clo, self.k, self.w, self.hidden, self.next
        return t

    def reachable(self):
        seen = set()
        todo = [r for r in self.roots + [self.clo, self.k] if r is not None]
        while todo:
            x = todo.pop()
            if x in seen:
                continue
            seen.add(x)
            t = self.objs[x][1]
            if t is not None:
                todo.append(t)
        return seen

    def key(self):
        # relabel ids in traversal order from the roots, then the remaining (garbage) objects in id order
        order = {}

        def walk(x):
            while x is not None and x not in order:
                order[x] = len(order)
                x = self.objs[x][1]
        for r in self.roots + [self.clo, self.k]:
            walk(r)
        for x in sorted(self.objs):
            walk(x)
        objs = tuple(sorted((order[i], o[0], None if o[1] is None else order[o[1]]) for i, o in self.objs.items()))
        ren = lambda r: None if r is None else order[r]
        return (objs, tuple(ren(r) for r in self.roots), ren(self.clo), ren(self.k), self.w if self.w in (None, "dead") else order.get(self.w, "gone"), min(self.hidden, 2))

    def events(self):
        ev = []
        n = len(self.objs)
        for i in range(3):
            if n < MAXOBJ:
                for kd in KINDS:
                    ev.append(("new", i, kd))
                ev.append(("redef", i, "box"))
            if self.roots[i] is not None:
                ev.append(("drop", i))
                for j in range(3):
                    if self.roots[j] is not None:
                        ev.append(("link", i, j))
                if self.objs[self.roots[i]][1] is not None:
                    ev.append(("unlink", i))
                ev.append(("clo", i))
                ev.append(("cont", i))
                ev.append(("weak", i))
                ev.append(("thread", i))
        if self.clo is not None:
            ev.append(("dropclo",))
        if self.k is not None:
            ev.append(("dropk",))
        ev.append(("selfclo",))
        ev.append(("gc",))
        return ev

    def apply(self, e):
        t = self.copy()
        if e[0] in ("new", "redef"):
            t.objs[t.next] = [e[2], None]
            t.roots[e[1]] = t.next
            t.next += 1
        elif e[0] == "drop":
            t.roots[e[1]] = None
        elif e[0] == "link":
            t.objs[t.roots[e[1]]][1] = t.roots[e[2]]
        elif e[0] == "unlink":
            t.objs[t.roots[e[1]]][1] = None
        elif e[0] == "clo":
            t.clo = t.roots[e[1]]
        elif e[0] == "cont":
            t.k = t.roots[e[1]]
        elif e[0] == "weak":
            t.w = t.roots[e[1]]
            t.hidden += 1
        elif e[0] == "thread":
            t.hidden += 1
        elif e[0] == "dropclo":
            t.clo = None
        elif e[0] == "dropk":
            t.k = None
        elif e[0] == "selfclo":
            t.hidden += 1
        elif e[0] == "gc":
            live = t.reachable()
            t.objs = {i: o for i, o in t.objs.items() if i in live}
            t.hidden = 0
            if t.w not in (None, "dead") and t.w not in live:
                t.w = "dead"
        return t


def code(e, twin_before):
    r = lambda i: "r%d" % i
    if e[0] == "new":
        return "(begin (set! %s %s) void)" % (r(e[1]), MK[e[2]])
    if e[0] == "redef":
        return "(define %s %s)" % (r(e[1]), MK[e[2]])
    if e[0] == "drop":
        return "(begin (set! %s #f) void)" % r(e[1])
    if e[0] == "link":
        kd = twin_before.objs[twin_before.roots[e[1]]][0]
        return "(begin " + SETF[kd].format(a=r(e[1]), v=r(e[2])) + " void)"
    if e[0] == "unlink":
        kd = twin_before.objs[twin_before.roots[e[1]]][0]
        return "(begin " + SETF[kd].format(a=r(e[1]), v="0") + " void)"
    if e[0] == "clo":
        return "(begin (set! clo (let ((o %s)) (lambda () o))) void)" % r(e[1])
    if e[0] == "cont":
        return "(begin (capture %s) void)" % r(e[1])
    if e[0] == "weak":
        return "(begin (set! w (make-weak-box %s)) void)" % r(e[1])
    if e[0] == "thread":
        return "(begin (thread-join! (spawn-native-thread (lambda () (let ((g (box %s))) (set-box! g g) void)))) void)" % r(e[1])
    if e[0] == "dropclo":
        return "(begin (set! clo #f) void)"
    if e[0] == "dropk":
        return "(begin (set! k #f) void)"
    if e[0] == "selfclo":
        return "(begin (let ((b (box 0))) (set-box! b (lambda () b))) void)"
    if e[0] == "gc":
        return "(begin (#%gc-collect) void)"
    raise ValueError(e)


def parse_stats(v):
    import re
    return [int(x) for x in re.findall(r"\(i (-?\d+)\)", v)]


_CAL = {}


def calibrate(env):
    """baseline slots in use after PRE and the slot cost of each object kind, measured once per configuration on the initial state"""
    key = json.dumps(env, sort_keys=True)
    if key in _CAL:
        return _CAL[key]
    steps = [PRE, "(begin (#%gc-collect) void)", "(stats)"]
    for kd in KINDS:
        steps += ["(begin (set! r0 %s) (#%%gc-collect) void)" % MK[kd], "(stats)"]
    steps += ["(begin (set! r0 #f) (#%gc-collect) void)", "(stats)"]
    r = common.run_cases([{"id": 0, "steps": steps}], env=env, batch=1, timeout_ms=60000)[0]
    st = r["steps"]
    base = parse_stats(st[2]["v"][-1])
    cost = {}
    for n, kd in enumerate(KINDS):
        s = parse_stats(st[4 + 2 * n]["v"][-1])
        cost[kd] = ((s[0] - s[1]) - (base[0] - base[1]), (s[6] - s[7]) - (base[6] - base[7]))
    back = parse_stats(st[4 + 2 * len(KINDS)]["v"][-1])
    ok = (back[0] - back[1], back[6] - back[7]) == (base[0] - base[1], base[6] - base[7])
    _CAL[key] = (base, cost, ok, back)
    return _CAL[key]


def run_path(path, env, cal=None):
    """-> list of failure strings for this history (checks after every event)"""
    base, cost, cal_ok, back = cal or calibrate(env)
    t = Twin()
    steps = [PRE, "(begin (#%gc-collect) void)", "(stats)"]
    if env and env.get("STEEL_VERIF_GC"):
        steps.append({"op": "gcplan", "on": True})
    base_len = len(steps)
    twins = []
    for e in path:
        steps.append(code(e, t))
        t = t.apply(e)
        twins.append(t)
        steps.append("(stats)")
        if e[0] == "gc" and t.w == "dead":
            steps.append("(weak-box-value w)")
    r = common.run_cases([{"id": 0, "steps": steps}], env=env, batch=1, timeout_ms=60000)[0]
    if r["exit"] == "timeout":
        # a hang of the subject repeats; a starved child on a loaded machine does not
        r = common.run_cases([{"id": 0, "steps": steps}], env=env, batch=1, timeout_ms=60000)[0]
    if r["exit"] != "normal" or len(r["steps"]) != len(steps):
        lm = ""
        if r["steps"] and r["steps"][-1].get("s") == "panic":
            lm = r["steps"][-1].get("m", "")[:100]
        return ["crash: engine exit %s after %d of %d steps %s" % (r["exit"], len(r["steps"]), len(steps), lm)]
    st = r["steps"]
    for s in st:
        if s["s"] == "panic":
            return ["panic: " + s.get("m", "")[:120]]
    fails = []
    if not cal_ok:
        fails.append("calibration: slots in use do not return to the baseline after dropping one object and collecting (%s vs %s)" % (back, base))
    base2 = parse_stats(st[2]["v"][-1])
    if (base2[0] - base2[1], base2[6] - base2[7]) != (base[0] - base[1], base[6] - base[7]):
        fails.append("calibration: the baseline differs between two engines (%s vs %s)" % (base2, base))
    i = base_len
    for e, tw in zip(path, twins):
        ev, sv = st[i], st[i + 1]
        i += 2
        if ev["s"] != "ok":
            fails.append("event %s failed: %s" % (e, ev.get("m", "")[:80]))
            break
        s = parse_stats(sv["v"][-1])
        for name, o in (("value", 0), ("vector", 6)):
            if s[o + 1] != s[o + 2]:
                fails.append("accounting: %s list has %d free slots but alloc_count=%d after %s" % (name, s[o + 1], s[o + 2], e[0]))
            if s[o + 5] != 1:
                fails.append("cursor: slot under the %s list's cursor is in use after %s" % (name, e[0]))
        if e[0] == "gc":
            live = tw.reachable()
            want_v = (base[0] - base[1]) + sum(cost[tw.objs[x][0]][0] for x in live)
            want_vec = (base[6] - base[7]) + sum(cost[tw.objs[x][0]][1] for x in live)
            got_v, got_vec = s[0] - s[1], s[6] - s[7]
            if got_v > want_v or got_vec > want_vec:
                fails.append("leak: after a collection %d value slots / %d vector slots in use, reachable objects need %d / %d" % (got_v, got_vec, want_v, want_vec))
            if got_v < want_v or got_vec < want_vec:
                fails.append("premature: after a collection %d value slots / %d vector slots in use, reachable objects need %d / %d" % (got_v, got_vec, want_v, want_vec))
            if tw.w == "dead":
                wv = st[i]
                i += 1
                if wv["s"] != "ok" or wv["v"][-1] != "#f":
                    fails.append("weak box still answers %s although its target is unreachable after a collection" % (wv.get("v") or ["error"])[-1][:40])
    return fails


def work(item):
    env, paths, cal = item
    out = []
    for p in paths:
        f = run_path(p, env, cal)
        if f:
            out.append((p, f))
    return out


def bfs(depth, env, rep, tag):
    seen = {Twin().key(): ()}
    frontier = [((), Twin())]
    transitions = 0
    reported = set()
    for d in range(depth):
        todo = []
        nxt = []
        for path, tw in frontier:
            for e in tw.events():
                p2 = path + (e,)
                todo.append(p2)
                t2 = tw.apply(e)
                kk = t2.key()
                if kk not in seen:
                    seen[kk] = p2
                    nxt.append((p2, t2))
        transitions += len(todo)
        cal = calibrate(env)
        res = common.pmap(work, [(env, ch, cal) for ch in common.chunks(todo, 40)])
        for r in res:
            for p, fails in r:
                for f in fails:
                    cls = f.split(":")[0]
                    # one report per (class, last event kind, message without numbers)
                    import re
                    sig = "%s%s :: %s :: after %s" % (tag, cls, re.sub(r"\d+", "N", f)[:140], p[-1][0])
                    if sig in reported:
                        continue
                    reported.add(sig)
                    rep.violation(sig + " :: shortest history " + " ".join("/".join(str(x) for x in e) for e in p), {"history": [list(e) for e in p], "failure": f, "env": env},
                                  {"case": {"steps": [PRE] + replay_steps(p)}, "env": env})
        frontier = nxt
    return len(seen), transitions


def replay_steps(p):
    t = Twin()
    out = []
    for e in p:
        out.append(code(e, t))
        t = t.apply(e)
        out.append("(stats)")
    return out


# ---------------------------------------------------------------- (b) boundedness
PATTERNS = {
    "acyclic-box": "(box i)",
    "acyclic-chain": "(box (vector (MNode (box i)) 0))",
    "box-cycle-1": "(let ((a (box 0))) (set-box! a a))",
    "box-cycle-2": "(let ((a (box 0)) (b (box 0))) (set-box! a b) (set-box! b a))",
    "vec-cycle-1": "(let ((a (vector 0 0))) (vector-set! a 0 a))",
    "vec-cycle-3": "(let ((a (vector 0 0)) (b (vector 0 0)) (c (vector 0 0))) (vector-set! a 0 b) (vector-set! b 0 c) (vector-set! c 1 a))",
    "struct-cycle-1": "(let ((a (MNode 0))) (set-MNode-next! a a))",
    "struct-cycle-2": "(let ((a (MNode 0)) (b (MNode 0))) (set-MNode-next! a b) (set-MNode-next! b a))",
    "mixed-cycle-4": "(let ((a (box 0)) (b (vector 0 0)) (c (MNode 0)) (d (box 0))) (set-box! a b) (vector-set! b 0 c) (set-MNode-next! c d) (set-box! d a))",
    "closure-cycle": "(let ((a (box 0))) (set-box! a (lambda () a)))",
    "closure-cycle-2": "(letrec ((f (lambda () g)) (g (lambda () f))) (box f))",
    "dead-continuation": "(let ((a (box i))) (call/cc (lambda (c) (set! kk c))) (set! kk #f))",
    "shadowed-global": "(begin (set! gg (box (vector i gg))) (set! gg #f))",
    "list-of-boxes": "(set! gg (map box (list i i i)))",
    "hash-of-boxes": "(set! gg (hash 'a (box i) 'b (vector i)))",
    "bounded-queue": "(begin (set! gg (cons (box i) (if (> (length gg2) 8) '() gg2))) (set! gg2 gg))",
}
BPRE = "(struct MNode (next) #:mutable) (define kk #f) (define gg #f) (define gg2 '()) (define (slots) (let ((s (#%verif-heap-stats))) (list (list-ref s 0) (list-ref s 6))))"


def bounded_program(pat, n, threads, every):
    """loop of n iterations of the garbage pattern; every `every` iterations a full collection and a sample of the heap statistics
    (every = 0: no explicit collections, samples of the slot counts only: the natural growth / compaction policy)"""
    body = PATTERNS[pat]
    if every:
        loop = ("(define (run n) (let loop ((i 0) (acc '())) (if (= i n) (reverse acc) (begin %s (if (= 0 (modulo i %d)) "
                "(begin (#%%gc-collect) (loop (+ i 1) (cons (#%%verif-heap-stats) acc))) (loop (+ i 1) acc))))))" % (body, every))
    else:
        loop = ("(define (run n) (let loop ((i 0) (acc '())) (if (= i n) (reverse acc) (begin %s (if (= 0 (modulo i %d)) "
                "(loop (+ i 1) (cons (#%%verif-heap-stats) acc)) (loop (+ i 1) acc))))))" % (body, max(1, n // 100)))
    other = "(define (churn n) (let loop ((i 0)) (if (= i n) 'done (begin %s (loop (+ i 1))))))" % body
    if threads == 1:
        return [BPRE, loop, "(begin (#%gc-collect) (#%verif-heap-stats))", "(run %d)" % n]
    return [BPRE, loop + " " + other, "(begin (#%gc-collect) (#%verif-heap-stats))",
            "(let ((t (spawn-native-thread (lambda () (churn %d))))) (let ((mine (run %d))) (thread-join! t) mine))" % (n, n)]


def work_bounded(item):
    pat, threads, n, every = item
    r = common.run_cases([{"id": 0, "steps": bounded_program(pat, n, threads, every)}], env={"SVH_CHILD_AS_MB": "24000"}, batch=1, timeout_ms=240000)[0]
    if r["exit"] != "normal" or len(r["steps"]) < 4 or r["steps"][3]["s"] != "ok":
        why = r["exit"] if r["exit"] != "normal" else (r["steps"][-1].get("m", "") or r["steps"][-1]["s"])[:120]
        return (pat, threads, n, every, None, None, "run failed: %s" % why)
    base = parse_stats(r["steps"][2]["v"][-1])
    nums = parse_stats(r["steps"][3]["v"][-1])
    samples = [nums[k:k + 12] for k in range(0, len(nums), 12)]
    return (pat, threads, n, every, base, samples, None)


def judge_bounded(pat, threads, n, every, base, samples):
    """-> list of (class, message)"""
    out = []
    CHUNK = 256 * 100
    for k, s in enumerate(samples):
        for name, o in (("value", 0), ("vector", 6)):
            if s[o + 1] != s[o + 2] and threads == 1:
                out.append(("accounting", "%s list: %d free slots but alloc_count=%d at sample %d" % (name, s[o + 1], s[o + 2], k)))
                break
    if every:
        # right after a full collection only the constant live set may be in use (other thread: at most its current iteration's objects)
        # (inside `run` a constant number of slots holds the loop's own boxed variables; a running second thread adds what it allocated
        # between the end of the collection and the sample)
        slack = 16
        used0 = (base[0] - base[1], base[6] - base[7])
        deltas = [((s[0] - s[1]) - used0[0], (s[6] - s[7]) - used0[1]) for s in samples]
        worst = (max(d[0] for d in deltas), max(d[1] for d in deltas))
        least = (min(d[0] for d in deltas), min(d[1] for d in deltas))
        if threads == 1:
            if worst[0] > slack or worst[1] > slack:
                out.append(("leak", "after a full collection up to %d value / %d vector slots more than the baseline are in use (the live set is a handful of objects)" % worst))
            if worst != least and pat != "bounded-queue":
                out.append(("leak", "slots in use after a full collection vary between samples (%s .. %s above the baseline) although the live set is constant" % (least, worst)))
        else:
            # the other thread keeps allocating between the end of the collection and the sample: only a trend can be judged
            h = len(deltas) // 2
            for o, name in ((0, "value"), (1, "vector")):
                a = sorted(d[o] for d in deltas[:h])[h // 2]
                b = sorted(d[o] for d in deltas[h:])[(len(deltas) - h) // 2]
                if b > 2 * a + 2000:
                    out.append(("leak", "%s slots in use after a full collection grow over the run (median %d in the first half, %d in the second)" % (name, a, b)))
        if least[0] < 0 or least[1] < 0:
            out.append(("premature", "after a full collection fewer slots than the baseline are in use (%d / %d)" % least))
        # the growth policy is a cycle: every full collection grows the list until, after 10 growths, it is compacted; the peak of every
        # complete cycle after the first (which starts from the small initial heap) must not exceed the peak of the second one
        for name, o in (("value", 0), ("vector", 6)):
            cycles, cur = [], []
            for s in samples:
                if cur and s[o + 4] < cur[-1][o + 4]:
                    cycles.append(cur)
                    cur = []
                cur.append(s)
            peaks = [max(x[o] for x in c) for c in cycles]  # complete cycles only
            if len(peaks) >= 3 and max(peaks[2:]) > peaks[1] + CHUNK:
                out.append(("growth", "%s list: the peak slot count of successive growth/compaction cycles keeps rising: %s" % (name, peaks)))
            if name == "value" and len(peaks) < 3:
                out.append(("machinery", "fewer than three complete growth/compaction cycles observed (%d)" % len(peaks)))
    return out


# ---------------------------------------------------------------- (c) shadowed globals over many evaluation units
def work_redefine(item):
    """top-level re-definitions spread over separate evaluations: the objects of shadowed definitions must be reclaimed and the global
    table must stop growing (slots of shadowed definitions are recycled)"""
    n_units, every, shape = item
    steps = [PRE, "(begin (#%gc-collect) void)", "(stats)"]
    marks = []
    for k in range(1, n_units + 1):
        if shape == "three-names":
            steps.append("(define r0 (box %d)) (define r1 (vector %d 0)) (define r2 (MNode %d))" % (k, k, k))
        elif shape == "one-name":
            steps.append("(define r0 (box %d))" % k)
        else:  # functions closing over a mutable object, redefined
            steps.append("(define r0 (let ((b (box %d))) (lambda () (unbox b))))" % k)
        if k % every == 0:
            steps += ["(begin (#%gc-collect) void)", "(stats)", {"op": "symstats"}]
            marks.append(len(steps) - 2)
    r = common.run_cases([{"id": 0, "steps": steps}], batch=1, timeout_ms=300000)[0]
    if r["exit"] != "normal" or len(r["steps"]) != len(steps):
        return (item, None, "run failed: %s after %d of %d steps" % (r["exit"], len(r["steps"]), len(steps)))
    base = parse_stats(r["steps"][2]["v"][-1])
    samples = []
    for m in marks:
        s = parse_stats(r["steps"][m]["v"][-1])
        sym = r["steps"][m + 1]["v"]
        samples.append(((s[0] - s[1]) - (base[0] - base[1]), (s[6] - s[7]) - (base[6] - base[7]), sym[4], s[1] == s[2] and s[7] == s[8]))
    return (item, samples, None)



# ---------------------------------------------------------------- (d) host roots
HR_EVENTS = ("make0", "make1", "root0", "root1", "drop0", "drop1", "unroot0", "unroot1", "gc")


def host_root_histories(depth):
    """every history over: put a fresh self-referential box into global r0 / r1, the host roots the current value of r0 / r1 in slot 0 / 1
    (SteelVal::as_rooted), the script drops r0 / r1, the host releases slot 0 / 1, full collection. Enabledness: root needs an object in the
    global, unroot a held root, drop an object; histories that differ only in events after the last collection add nothing: every history
    ends with  ... gc [release everything] gc"""
    out = []

    def rec(path, g, held):
        if path and path[-1] == "gc":
            out.append(tuple(path))
        if len(path) == depth:
            return
        for e in HR_EVENTS:
            i = int(e[-1]) if e[-1].isdigit() else None
            if e.startswith("make") and g[i] is None:
                g2 = list(g); g2[i] = "o"; rec(path + [e], g2, held)
            elif e.startswith("root") and g[i] is not None and held[i] is None:
                h2 = list(held); h2[i] = "o"; rec(path + [e], g, h2)
            elif e.startswith("drop") and g[i] is not None:
                g2 = list(g); g2[i] = None; rec(path + [e], g2, held)
            elif e.startswith("unroot") and held[i] is not None:
                h2 = list(held); h2[i] = None; rec(path + [e], g, h2)
            elif e == "gc" and path and path[-1] != "gc":
                rec(path + [e], g, held)
    rec([], [None, None], [None, None])
    return out


def run_host_root(path, env, cal):
    base, cost, cal_ok, back = cal
    steps = [PRE, "(begin (#%gc-collect) void)", "(stats)"]
    plan = []  # (event, objects alive according to the twin after it) for gc events
    nextid = 0
    g = [None, None]
    held = [None, None]
    for e in list(path) + ["unroot0", "unroot1", "drop0", "drop1", "gc"]:
        i = int(e[-1]) if e[-1].isdigit() else None
        if e.startswith("make"):
            steps.append("(begin (set! r%d (let ((b (box %d))) (set-box! b (list %d b)) b)) void)" % (i, nextid, nextid))
            g[i] = nextid
            nextid += 1
        elif e.startswith("root"):
            if g[i] is None or held[i] is not None:
                continue
            steps.append({"op": "root", "name": "r%d" % i, "slot": i})
            held[i] = g[i]
        elif e.startswith("drop"):
            steps.append("(begin (set! r%d #f) void)" % i)
            g[i] = None
        elif e.startswith("unroot"):
            steps.append({"op": "unroot", "slot": i})
            held[i] = None
        else:
            steps.append("(begin (#%gc-collect) void)")
            steps.append("(stats)")
            live = set(x for x in g + held if x is not None)
            plan.append((len(steps) - 1, len(live), list(held)))
            for k in (0, 1):
                if held[k] is not None:
                    steps.append({"op": "rootval", "slot": k})
                    plan.append((len(steps) - 1, "val", held[k]))
    r = common.run_cases([{"id": 0, "steps": steps}], env=env, batch=1, timeout_ms=60000)[0]
    if r["exit"] != "normal" or len(r["steps"]) != len(steps):
        return ["crash: engine exit %s after %d of %d steps" % (r["exit"], len(r["steps"]), len(steps))]
    st = r["steps"]
    fails = []
    for idx, what, extra in plan:
        if what == "val":
            v = st[idx]["v"][-1] if st[idx]["s"] == "ok" else "error"
            if ("(i %d)" % extra) not in v:
                fails.append("premature: the value behind a held host root no longer shows its contents (%s, object %d)" % (v[:60], extra))
            continue
        s_ = parse_stats(st[idx]["v"][-1])
        want = (base[0] - base[1]) + what * cost["box"][0]
        got = s_[0] - s_[1]
        if got > want:
            fails.append("leak: after a collection %d value slots in use, objects reachable from globals and held host roots need %d" % (got, want))
        elif got < want:
            fails.append("premature: after a collection %d value slots in use, objects reachable from globals and held host roots need %d" % (got, want))
    return fails


def work_host_root(item):
    env, paths, cal = item
    out = []
    for p in paths:
        f = run_host_root(p, env, cal)
        if f:
            out.append((p, f))
    return out


def main(argv=None):
    a = common.parse_args(argv)
    if a.replay:
        return common.replay_eval(a.replay)
    common.build()
    rep = common.Reporter(P, a.tier)
    depth = 5 if a.tier == "thorough" else 4
    n_states, n_trans = bfs(depth, None, rep, "")
    n_states2, n_trans2 = bfs(depth - 1, {"STEEL_VERIF_GC": "every"}, rep, "gc-at-every-allocation: ")
    every = 500
    n_iter = every * (120 if a.tier == "thorough" else 32)
    items = [(p, th, n_iter, every) for p in PATTERNS for th in (1, 2) if th == 1 or "set! gg" not in PATTERNS[p] and "set! kk" not in PATTERNS[p]]
    # the natural policy (no explicit collections): slot counts over an iteration ladder must stop growing (compaction after 10 growths)
    ladder = [30000000, 60000000] if a.tier == "thorough" else []
    nat_patterns = ["box-cycle-2", "mixed-cycle-4", "acyclic-chain", "closure-cycle"]
    items += [(p, 1, n, 0) for p in nat_patterns for n in ladder]
    bres = common.pmap(work_bounded, items)
    table = {}
    nat = {}
    for pat, th, n, ev, base, samples, err in bres:
        if err:
            rep.violation("bounded %s threads=%d %s :: %s" % (pat, th, "explicit collections" if ev else "natural policy N=%d" % n, err[:140]), {"pattern": pat, "threads": th, "n": n, "error": err},
                          {"case": {"steps": bounded_program(pat, n, th, ev)}, "env": None})
            continue
        if ev:
            table["%s/%dt" % (pat, th)] = {"samples": len(samples), "max_value_slots": max(s[0] for s in samples), "max_vector_slots": max(s[6] for s in samples),
                                            "max_in_use_after_gc": max(s[0] - s[1] for s in samples)}
            for cls, msg in judge_bounded(pat, th, n, ev, base, samples):
                rep.violation("bounded %s threads=%d :: %s :: %s" % (pat, th, cls, msg), {"pattern": pat, "threads": th, "class": cls, "message": msg, "first_samples": samples[:12]},
                              {"case": {"steps": bounded_program(pat, n, th, ev)}, "env": None})
        else:
            nat.setdefault(pat, {})[n] = (max(s[0] for s in samples), max(s[6] for s in samples))
    for pat, rungs in nat.items():
        ns = sorted(rungs)
        if len(ns) >= 2:
            (v1, c1), (v2, c2) = rungs[ns[-2]], rungs[ns[-1]]
            table["%s/natural" % pat] = {str(n_): rungs[n_] for n_ in ns}
            if v2 > v1 + 256 * 100 or c2 > c1 + 256 * 100:
                rep.violation("bounded %s natural policy :: heap slots keep growing with the number of iterations" % pat, {"pattern": pat, "max_slots_per_N": {str(n_): rungs[n_] for n_ in ns}},
                              {"case": {"steps": bounded_program(pat, ns[-1], 1, 0)}, "env": None})
    n_units = 9000 if a.tier == "thorough" else 3000
    ritems = [(n_units, 100, sh) for sh in ("three-names", "one-name", "closure-over-box")]
    for item, samples, err in common.pmap(work_redefine, ritems):
        shape = item[2]
        if err:
            rep.violation("redefinition %s :: %s" % (shape, err[:120]), {"shape": shape, "error": err}, {"case": {"steps": ["(define r0 (box 1))"]}, "env": None})
            continue
        table["redefinition/" + shape] = {"samples": len(samples), "in_use_above_baseline": sorted(set((x[0], x[1]) for x in samples))[:6], "global_slots_first_last": [samples[0][2], samples[-1][2]]}
        # shadowed definitions are reclaimed in batches (the recycler runs when enough slots are shadowed): what is in use oscillates;
        # it must not drift upwards and the global table must stop growing
        third = len(samples) // 3
        early, late = samples[:2 * third], samples[2 * third:]
        e_used = (max(x[0] for x in early), max(x[1] for x in early))
        l_used = (max(x[0] for x in late), max(x[1] for x in late))
        if l_used[0] > e_used[0] * 1.25 + 64 or l_used[1] > e_used[1] * 1.25 + 64:
            rep.violation("redefinition %s :: leak :: slots held by shadowed top-level definitions keep growing (max %s above the baseline in the first two thirds of the run, %s in the last third)"
                          % (shape, e_used, l_used), {"shape": shape, "samples": samples}, {"case": {"steps": [PRE, "(define r0 (box 1))", "(define r0 (box 2))", "(begin (#%gc-collect) void)", "(stats)"]}, "env": None})
        g_late = [x[2] for x in late]
        if max(g_late) - min(g_late) > 8 or max(g_late) > max(x[2] for x in early) + 160:
            rep.violation("redefinition %s :: global-table-growth :: the global table keeps growing with the number of re-definitions (slots per sample in the last third: %s)" % (shape, g_late[:12]),
                          {"shape": shape, "global_slots": [x[2] for x in samples]}, {"case": {"steps": [PRE, "(define r0 (box 1))", "(define r0 (box 2))", {"op": "symstats"}]}, "env": None})
        if not all(x[3] for x in samples):
            rep.violation("redefinition %s :: accounting :: alloc_count differs from the number of free slots" % shape, {"shape": shape}, {"case": {"steps": [PRE]}, "env": None})
    # (d) host roots
    hr = host_root_histories(7 if a.tier == "thorough" else 6)
    cal = calibrate(None)
    import re as _re
    hr_reported = set()
    for res in common.pmap(work_host_root, [(None, ch, cal) for ch in common.chunks(hr, 25)]):
        for p_, fails in res:
            for f in fails:
                sig = "host-roots %s :: %s" % (f.split(":")[0], _re.sub(r"\d+", "N", f)[:150])
                if sig in hr_reported:
                    continue
                hr_reported.add(sig)
                rep.violation(sig + " :: shortest history " + " ".join(p_), {"history": list(p_), "failure": f}, {"case": {"steps": [PRE]}, "env": None, "history": list(p_)})
    cov = {"evaluations": n_trans + n_trans2 + len(items) + len(ritems) * n_units + len(hr), "host_root_histories": len(hr), "distinct_nontrivial": n_states + n_states2,
           "rule": "(a) BFS to depth %d over %d event kinds on 3 roots, <= %d objects; every (state, enabled event) pair executed on a fresh real engine by replaying the "
                   "shortest history of the state; state = canonical form of the twin heap graph (roots, edges, closure/continuation/weak holders, pending garbage); "
                   "second BFS to depth %d with a forced full collection at every allocation; (b) %d garbage patterns x {1,2} threads, %d iterations with a full collection and a sample of the heap "
                   "statistics every %d iterations (exact: slots in use == baseline; peak slot count of successive growth/compaction cycles does not rise; accounting "
                   "invariant at every sample); thorough: natural growth/compaction policy over the ladder %s; (d) every history of <= 6 (7) events over {make a cyclic object in one of 2 globals, host roots it (as_rooted), script drops the global, host releases the root, full collection} followed by a drain: after each collection slots in use == baseline + objects reachable from globals and HELD host roots, a held root still reads its contents; (c) %d top-level re-definitions in separate evaluations x 3 shapes, sampled every 100: objects of shadowed definitions reclaimed, global table bounded" % (depth, 15, MAXOBJ, depth - 1, len(PATTERNS), n_iter, every, ladder, n_units),
           "samples": [" ".join(replay_steps((("new", 0, "box"), ("link", 0, 0), ("drop", 0), ("gc",)))[::2]), bounded_program("mixed-cycle-4", 1000, 1, 500)[1][:200]],
           "exhaustive": True, "states": n_states, "transitions": n_trans, "states_gc_every": n_states2, "transitions_gc_every": n_trans2, "slot_maxima": table}
    return rep.finish("model_checking", cov, assumptions=["slot cost per object kind is calibrated once in the initial state of each run and must then hold in every state",
                                                           "whether a weak box keeps answering while its target is reachable is C04's subject (recorded there)"])


if __name__ == "__main__":
    sys.exit(main())
