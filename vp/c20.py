"""C20 – the host boundary converts faithfully and never exposes dangling host references.
Finite grids enumerated completely on the Rust side (harness driver `host`):
 (a) every integer type x boundary values of the type and of the neighbouring wider types: script -> host through a registered identity
     function (in range: identical value and the host body entered once; out of range / wrong kind: error and the body NOT entered),
     host -> script -> host for the type's own extremes; floats, bool, char, strings, Option, Result, Vec, tuples, maps, sets;
 (b) call protocol: registered functions of arity 0..3 called directly and through apply with every argument tuple of length 0..arity+1
     over a 9-value alphabet: accepted exactly when arity and kinds match, body entered exactly then;
 (d) argument routing: a registered host function of every arity 0..16 (plain closure, &self method, &mut self method) called directly and
     through apply with distinct values per position must receive the k-th argument in its k-th parameter; one argument too few / too many
     must be an error with the body not entered;
 (c) lent references: the script stashes the reference lent by run_with_reference in 12 kinds of places; every later use must be an
     error, the host object's state must be unchanged by late uses, and a second lend must work."""
import sys, json
from . import common

P = "C20"


def main(argv=None):
    a = common.parse_args(argv)
    common.build()
    if a.replay:
        print(open(a.replay).read()[:2000])
    rep = common.Reporter(P, a.tier)
    h = common.harness("host")
    out, ex = h.request({"op": "all"})
    if ex != "normal" or not out:
        rep.violation("host driver died: %s" % ex, {"exit": ex}, {"op": "all"})
        res = {"checks": 0, "cells": [], "fails": []}
    else:
        res = out[0]
    seen = set()
    for f in res["fails"]:
        # the "entered" companion of a status failure is the same defect
        key = f["what"].split(" [")[0]
        if f["part"] in ("a-entered", "b-entered") and any(g["part"] in ("a-script-to-host", "b-status") and g["what"].startswith(key.split("entered for argument ")[-1][:0] or "\0") for g in res["fails"]):
            pass
        sig = "%s :: %s => want %s got %s" % (f["part"], f["what"], f["want"], f["got"])
        if sig in seen:
            continue
        seen.add(sig)
        rep.violation(sig, f, {"op": "all", "part": f["part"][0]})
    cov = {"evaluations": res["checks"], "distinct_nontrivial": res["checks"],
           "rule": "complete finite grids: 10 integer types x ~20 boundary values (own extremes and those of the wider neighbours) x {script->host, "
                   "host->script->host}; float / bool / char / string / Option / Result / Vec / tuple / map / set cases; 4 function signatures x all "
                   "argument tuples of length 0..arity+1 over 9 values x {direct call, apply}; 47 host functions (arity 0..16 plain, 1..15 behind &self and &mut self) x 2 distinct-value assignments x {direct, apply} with the parameter vector seen by the host body compared position by position, plus arity-1 / arity+1 calls; 12 stash locations x 2 late uses of a lent reference; "
                   "each check compares an observed status/value/entry count with the expectation derived from Rust's own TryFrom",
           "samples": ["(id-u8 256) => ERR, body not entered", "(apply f2 (list 1 \"s\" #t)) => ERR, body not entered",
                       "stash *ext* in a closure during run_with_reference, call it afterwards => ERR"],
           "exhaustive": True, "grid_cells": res["cells"]}
    return rep.finish("exploration", cov, assumptions=["expectations for integer conversions are Rust's TryFrom between the types",
                                                       "f64 -> f32 rounding inside the f32 range is accepted; only overflow to infinity is a violation"])


if __name__ == "__main__":
    sys.exit(main())
