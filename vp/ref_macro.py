"""Reference syntax-rules matcher / template instantiation over data (R7RS 4.3.2), used with templates that only build quoted data,
so that hygiene does not enter: (define-syntax m (syntax-rules (lit ...) [(_ . PATTERN) (quote TEMPLATE)] ...)).
Data: Python lists for proper lists, ("dot", [items], tail) for improper, str for symbols, int for numbers."""

ELL = "..."


class NoMatch(Exception):
    pass


class BadTemplate(Exception):
    pass


def is_sym(x):
    return isinstance(x, str)


def match(pat, form, lits, b):
    """bind pattern variables of pat against form into dict b; ellipsis variables map to lists (depth = nesting)"""
    if is_sym(pat):
        if pat == "_":
            return
        if pat in lits:
            if form != pat:
                raise NoMatch()
            return
        b[pat] = form
        return
    if isinstance(pat, list):
        # find ellipsis
        if ELL in pat:
            i = pat.index(ELL)
            if i == 0 or pat.count(ELL) > 1:
                raise BadTemplate()
            before, rep, after = pat[:i - 1], pat[i - 1], pat[i + 1:]
            if not isinstance(form, list):
                raise NoMatch()
            if len(form) < len(before) + len(after):
                raise NoMatch()
            for p, f in zip(before, form):
                match(p, f, lits, b)
            mid = form[len(before):len(form) - len(after)]
            vs = pvars(rep, lits)
            seqs = {v: [] for v in vs}
            for f in mid:
                bb = {}
                match(rep, f, lits, bb)
                for v in vs:
                    seqs[v].append(bb[v])
            for v in vs:
                b[v] = ("seq", seqs[v])
            for p, f in zip(after, form[len(form) - len(after):] if after else []):
                match(p, f, lits, b)
            return
        if not isinstance(form, list) or len(form) != len(pat):
            raise NoMatch()
        for p, f in zip(pat, form):
            match(p, f, lits, b)
        return
    if isinstance(pat, tuple) and pat[0] == "dot":
        items, tail = pat[1], pat[2]
        if isinstance(form, list):
            if len(form) < len(items):
                raise NoMatch()
            for p, f in zip(items, form):
                match(p, f, lits, b)
            match(tail, form[len(items):], lits, b)
            return
        if isinstance(form, tuple) and form[0] == "dot":
            if len(form[1]) < len(items):
                raise NoMatch()
            for p, f in zip(items, form[1]):
                match(p, f, lits, b)
            rest_items = form[1][len(items):]
            match(tail, ("dot", rest_items, form[2]) if rest_items else form[2], lits, b)
            return
        raise NoMatch()
    # literal datum (number)
    if pat != form:
        raise NoMatch()


def pvars(pat, lits):
    if is_sym(pat):
        return [] if (pat in lits or pat in (ELL, "_")) else [pat]
    if isinstance(pat, list):
        out = []
        for p in pat:
            out += pvars(p, lits)
        return out
    if isinstance(pat, tuple):
        out = []
        for p in pat[1]:
            out += pvars(p, lits)
        return out + pvars(pat[2], lits)
    return []


def inst(t, b):
    if is_sym(t):
        if t in b:
            v = b[t]
            if isinstance(v, tuple) and v and v[0] == "seq":
                raise BadTemplate()  # ellipsis variable used without ellipsis
            return v
        return t
    if isinstance(t, list):
        out = []
        i = 0
        while i < len(t):
            x = t[i]
            if i + 1 < len(t) and t[i + 1] == ELL:
                k = 0
                while i + 1 + k < len(t) and t[i + 1 + k] == ELL:
                    k += 1
                out += inst_ell(x, b, k)
                i += 1 + k
                continue
            out.append(inst(x, b))
            i += 1
        return out
    if isinstance(t, tuple) and t[0] == "dot":
        items = inst(list(t[1]), b)
        tail = inst(t[2], b)
        if isinstance(tail, list):
            return items + tail
        return ("dot", items, tail)
    return t


def inst_ell(x, b, k):
    """x followed by k ellipses: expand one level, then flatten the remaining k-1 levels (R7RS: x ... ... )"""
    vs = [v for v in tvars(x) if v in b and isinstance(b[v], tuple) and b[v] and b[v][0] == "seq"]
    if not vs:
        raise BadTemplate()
    n = None
    for v in vs:
        ln = len(b[v][1])
        if n is None:
            n = ln
        elif n != ln:
            raise BadTemplate()
    out = []
    for j in range(n):
        bb = dict(b)
        for v in vs:
            bb[v] = b[v][1][j]
        if k == 1:
            out.append(inst(x, bb))
        else:
            out += inst_ell(x, bb, k - 1)
    return out


def tvars(t):
    if is_sym(t):
        return [t]
    if isinstance(t, list):
        return [v for x in t for v in tvars(x)]
    if isinstance(t, tuple):
        return [v for x in t[1] for v in tvars(x)] + tvars(t[2])
    return []


def expand(rules, lits, args):
    """rules: list of (pattern-after-keyword, template); args: the use's arguments as a list -> datum or raises NoMatch / BadTemplate"""
    for pat, tmpl in rules:
        b = {}
        try:
            match(pat, args, lits, b)
        except NoMatch:
            continue
        return inst(tmpl, b)
    raise NoMatch()


def show(d):
    if isinstance(d, list):
        return "(" + " ".join(show(x) for x in d) + ")"
    if isinstance(d, tuple) and d[0] == "dot":
        return "(" + " ".join(show(x) for x in d[1]) + " . " + show(d[2]) + ")"
    return str(d)


def enc(d):
    """canonical encoding of a quoted datum as steel::verif::encode prints it"""
    import json
    if isinstance(d, list):
        return "(lst" + "".join(" " + enc(x) for x in d) + ")"
    if isinstance(d, tuple) and d[0] == "dot":
        out = enc(d[2])
        for x in reversed(d[1]):
            out = "(pair %s %s)" % (enc(x), out)
        return out
    if isinstance(d, int):
        return "(i %d)" % d
    return "(sym %s)" % json.dumps(d)
