"""Reference numeric tower: exact = Python int / Fraction, inexact = Python float (IEEE double)."""
import math, struct
from fractions import Fraction


class Err(Exception):
    pass


class Unspec(Exception):
    """outcome not pinned down by the property / documentation -> not compared"""
    pass


ERR = "ERR"
I64_MIN, I64_MAX = -(1 << 63), (1 << 63) - 1
I32_MIN, I32_MAX = -(1 << 31), (1 << 31) - 1


def norm(x):
    if isinstance(x, Fraction) and x.denominator == 1:
        return int(x.numerator)
    return x


def is_exact(x):
    return isinstance(x, (int, Fraction)) and not isinstance(x, bool)


def bits(f):
    if f != f:
        return "7ff8000000000000"
    return "%016x" % struct.unpack("<Q", struct.pack("<d", f))[0]


def enc(x):
    """canonical encoding as produced by steel::verif::encode"""
    if x is True:
        return "#t"
    if x is False:
        return "#f"
    if isinstance(x, int):
        return "(i %d)" % x if I64_MIN <= x <= I64_MAX else "(big %d)" % x
    if isinstance(x, Fraction):
        x = norm(x)
        if isinstance(x, int):
            return enc(x)
        return "(rat %d %d)" % (x.numerator, x.denominator)
    if isinstance(x, float):
        return "(f64 %s)" % bits(x)
    if isinstance(x, str):
        import json
        return "(str %s)" % json.dumps(x, ensure_ascii=False)
    if isinstance(x, (list, tuple)):
        return "(lst" + "".join(" " + enc(e) for e in x) + ")"
    raise ValueError(x)


def norm_enc(s):
    """implementation encodings: bigrat and rat are the same class for comparison"""
    return s.replace("(bigrat ", "(rat ")


def lit(x):
    """source literal"""
    if isinstance(x, bool):
        return "#t" if x else "#f"
    if isinstance(x, int):
        return str(x)
    if isinstance(x, Fraction):
        return "%d/%d" % (x.numerator, x.denominator)
    if isinstance(x, float):
        if x != x:
            return "+nan.0"
        if x == math.inf:
            return "+inf.0"
        if x == -math.inf:
            return "-inf.0"
        r = repr(x)
        if "e" in r:
            m, e = r.split("e")
            if "." not in m:
                m += ".0"
            return m + "e" + str(int(e))
        return r
    raise ValueError(x)


def f64_exact(x):
    """exact operand -> double, only when exactly representable or a small rational (correct rounding
    of n/d by one IEEE division); otherwise the conversion itself is not pinned down -> Unspec"""
    if isinstance(x, float):
        return x
    if isinstance(x, int):
        try:
            f = float(x)
        except OverflowError:
            raise Unspec()
        if int(f) != x:
            raise Unspec()
        return f
    if isinstance(x, Fraction):
        if abs(x.numerator) < (1 << 53) and x.denominator < (1 << 53):
            return x.numerator / x.denominator
        raise Unspec()
    raise Err()


def to_exact_value(x):
    """value of a number as an extended rational for comparisons"""
    if isinstance(x, float):
        if x != x:
            return None
        if x in (math.inf, -math.inf):
            return x
        return Fraction(x)
    return Fraction(x)


def _cmp(a, b):
    ea, eb = to_exact_value(a), to_exact_value(b)
    if ea is None or eb is None:
        return None
    if isinstance(ea, float) or isinstance(eb, float):  # an infinity involved
        fa = ea if isinstance(ea, float) else (0.0 if ea == 0 else math.copysign(1.0, ea))
        fb = eb if isinstance(eb, float) else (0.0 if eb == 0 else math.copysign(1.0, eb))
        if isinstance(ea, float) and isinstance(eb, float):
            return (ea > eb) - (ea < eb)
        if isinstance(ea, float):
            return 1 if ea > 0 else -1
        return -1 if eb > 0 else 1
    return (ea > eb) - (ea < eb)


def arith2(op, a, b):
    if is_exact(a) and is_exact(b):
        if op == "+":
            return norm(Fraction(a) + Fraction(b))
        if op == "-":
            return norm(Fraction(a) - Fraction(b))
        if op == "*":
            return norm(Fraction(a) * Fraction(b))
        if op == "/":
            if b == 0:
                raise Err()
            return norm(Fraction(a) / Fraction(b))
    if op == "/" and is_exact(b) and b == 0:
        raise Unspec()  # (/ 1.0 0): Steel documents an error, IEEE says inf: not compared
    fa, fb = f64_exact(a), f64_exact(b)
    if op == "+":
        return fa + fb
    if op == "-":
        return fa - fb
    if op == "*":
        return fa * fb
    if op == "/":
        if fb == 0.0:
            if fa != fa or fa == 0.0:
                return math.nan
            return math.copysign(math.inf, fa) * math.copysign(1.0, fb)
        return fa / fb
    raise ValueError(op)


def isint(x):
    return isinstance(x, int) and not isinstance(x, bool)


def apply(op, args):
    """returns value (int/Fraction/float/bool/str/list) or raises Err / Unspec"""
    n = len(args)
    if op in ("+", "*"):
        acc = 0 if op == "+" else 1
        if n == 0:
            return acc
        acc = args[0]
        exactness = [is_exact(a) for a in args]
        if n > 2 and not all(exactness):
            raise Unspec()  # association/conversion order of inexact n-ary folds is not pinned down
        for b in args[1:]:
            acc = arith2(op, acc, b)
        return acc
    if op in ("-", "/"):
        if n == 0:
            raise Err()
        if n == 1:
            return arith2(op, 0 if op == "-" else 1, args[0]) if not (op == "-" and isinstance(args[0], float)) else -args[0]
        exactness = [is_exact(a) for a in args]
        if n > 2 and not all(exactness):
            raise Unspec()
        acc = args[0]
        for b in args[1:]:
            acc = arith2(op, acc, b)
        return acc
    if op in ("=", "<", ">", "<=", ">="):
        if n < 2:
            raise Unspec()
        res = True
        for a, b in zip(args, args[1:]):
            c = _cmp(a, b)
            if c is None:
                ok = False
            else:
                ok = {"=": c == 0, "<": c < 0, ">": c > 0, "<=": c <= 0, ">=": c >= 0}[op]
            res = res and ok
        return res
    if op in ("quotient", "remainder", "modulo", "floor/", "truncate/", "floor-quotient", "floor-remainder",
              "truncate-quotient", "truncate-remainder"):
        a, b = args
        if not (isint(a) and isint(b)):
            raise Unspec()
        if b == 0:
            raise Err()
        fq, fr = a // b, a % b
        tq = abs(a) // abs(b) * (1 if (a >= 0) == (b >= 0) else -1)
        tr = a - b * tq
        return {"quotient": tq, "remainder": tr, "modulo": fr, "floor/": [fq, fr], "truncate/": [tq, tr],
                "floor-quotient": fq, "floor-remainder": fr, "truncate-quotient": tq, "truncate-remainder": tr}[op]
    if op == "abs":
        (a,) = args
        return abs(a)
    if op in ("min", "max"):
        if not all(is_exact(a) for a in args):
            raise Unspec()
        return (min if op == "min" else max)(args)
    if op in ("gcd", "lcm"):
        a, b = args
        if not (isint(a) and isint(b)):
            raise Unspec()
        if op == "gcd":
            return math.gcd(a, b)
        if a == 0 or b == 0:
            return 0
        return abs(a * b) // math.gcd(a, b)
    if op == "expt":
        a, b = args
        if not (is_exact(a) and isint(b)):
            raise Unspec()
        if b < 0:
            if a == 0:
                raise Err()
            return norm(Fraction(1) / (Fraction(a) ** (-b)))
        return norm(Fraction(a) ** b)
    if op == "exact-integer-sqrt":
        (a,) = args
        if not isint(a):
            raise Unspec()
        if a < 0:
            raise Err()
        s = math.isqrt(a)
        return [s, a - s * s]
    if op in ("exact", "inexact->exact"):
        (a,) = args
        if is_exact(a):
            return a
        if a != a or a in (math.inf, -math.inf):
            raise Err()
        return norm(Fraction(a))
    if op in ("inexact", "exact->inexact"):
        (a,) = args
        return f64_exact(a)
    if op in ("floor", "ceiling", "round", "truncate"):
        (a,) = args
        if isinstance(a, float):
            if a != a or a in (math.inf, -math.inf):
                return a
            if op == "floor":
                r = math.floor(a)
            elif op == "ceiling":
                r = math.ceil(a)
            elif op == "truncate":
                r = math.trunc(a)
            else:
                r = round(a)  # banker's rounding = R7RS round-to-even
            r = float(r)
            if r == 0.0:
                r = math.copysign(0.0, a)
            return r
        fa = Fraction(a)
        if op == "floor":
            return math.floor(fa)
        if op == "ceiling":
            return math.ceil(fa)
        if op == "truncate":
            return math.trunc(fa)
        return round(fa)
    if op in ("zero?", "positive?", "negative?"):
        (a,) = args
        if isinstance(a, float) and a != a:
            return False
        return {"zero?": a == 0, "positive?": a > 0, "negative?": a < 0}[op]
    if op in ("even?", "odd?"):
        (a,) = args
        if not isint(a):
            raise Unspec()
        return (a % 2 == 0) if op == "even?" else (a % 2 == 1)
    if op == "add1":
        return arith2("+", args[0], 1)
    if op == "sub1":
        return arith2("-", args[0], 1)
    if op == "number->string":
        a = args[0]
        radix = args[1] if n > 1 else 10
        if not is_exact(a):
            raise Unspec()
        return tostr(a, radix)
    raise ValueError(op)


def tostr_int(a, radix):
    if a < 0:
        return "-" + tostr_int(-a, radix)
    if a == 0:
        return "0"
    d = "0123456789abcdefghijklmnopqrstuvwxyz"
    s = ""
    while a:
        s = d[a % radix] + s
        a //= radix
    return s


def tostr(a, radix=10):
    a = norm(a)
    if isinstance(a, int):
        return tostr_int(a, radix)
    return tostr_int(a.numerator, radix) + "/" + tostr_int(a.denominator, radix)
