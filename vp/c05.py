"""C05 – shared-value reference counting is sound under every thread interleaving.
Model checking of the REAL steel-rc code (harness driver `rcmc`, hooks H1):
 level 1: explicit-state BFS over operation histories (new / clone / drop / move / clone through a borrowed handle / get_mut /
          try_unwrap / strong_count / explicit merge / register / thread exit) on 2-3 real OS threads, state = complete count state;
 level 2: from every level-1 state, every pair of operations on distinct threads runs concurrently under a controlled scheduler and
          ALL interleavings of their gates (owner read/write, shared load/CAS, queue lock, dealloc) are enumerated.
Oracle (ghost handle multiset): destructor runs at most once and never while a handle is live; contents intact; exclusive access /
unwrap only with exactly one handle; no use of a quarantined box; at quiescence the destructor has run exactly once."""
import sys, json
from . import common

P = "C05"


def rc_request(req):
    h = common.harness("rcmc")
    out, ex = h.request(req)
    if not out:
        raise common.MachineryError("rcmc gave no answer (%s)" % ex)
    return out[0]


def work_l2(item):
    cfg, hists = item
    return rc_request(dict(cfg, op="l2", histories=hists))


def sig_of(v):
    """canonical signature: violation class + minimal history (+ pair)"""
    s = "%s <= %s" % (v["class"], json.dumps(v["history"]))
    if "pair" in v:
        s += " || %s" % json.dumps(v["pair"])
    return s


def main(argv=None):
    a = common.parse_args(argv)
    if a.replay:
        r = json.load(open(a.replay))
        print(json.dumps(r, indent=1)[:2500])
        common.build()
        out = rc_request(dict(r["replay"], op="replay"))
        print("now:", out)
        return 1 if out.get("violations") else 0
    common.build()
    rep = common.Reporter(P, a.tier)
    thorough = a.tier == "thorough"
    cfgs = [{"threads": 2, "cap_thread": 2, "cap_total": 3}, {"threads": 3, "cap_thread": 1, "cap_total": 3}]
    if thorough:
        cfgs = [{"threads": 2, "cap_thread": 3, "cap_total": 4}, {"threads": 3, "cap_thread": 2, "cap_total": 4}]
    tot = {"states": 0, "transitions": 0, "pairs": 0, "schedules": 0, "max_gates": 0, "capped_pairs": 0, "distinct_gate_traces": 0, "pruned": 0}
    samples = []
    l1_viol, l2_viol = [], []
    for cfg in cfgs:
        r1 = rc_request(dict(cfg, op="l1", max_states=200000))
        tot["states"] += r1["states"]
        tot["transitions"] += r1["transitions"]
        tot["pruned"] += r1.get("pruned_by_drift_bound", 0)
        if r1.get("capped"):
            tot["capped_l1"] = True
        samples.append(r1["histories"][len(r1["histories"]) // 2])
        for v in r1["violations"]:
            l1_viol.append((cfg, v))
        hs = r1["histories"]
        # level 2 from every level-1 state (quick: the 2-thread configuration from every state, the 3-thread one from every 3rd)
        if not thorough and cfg["threads"] == 3:
            hs = hs[::3]
            tot["l2_state_stride_3threads"] = 3
        items = [(cfg, ch) for ch in common.split_round_robin(hs, 48)]
        for r2 in common.pmap(work_l2, items):
            for k in ("pairs", "schedules", "capped_pairs", "distinct_gate_traces"):
                tot[k] += r2[k]
            tot["max_gates"] = max(tot["max_gates"], r2["max_gates"])
            for v in r2["violations"]:
                l2_viol.append((cfg, v))
    # minimal per class: shortest history
    best = {}
    for cfg, v in l1_viol + l2_viol:
        k = v["class"]
        cur = best.get(k)
        key = (len(v["history"]), json.dumps(v["history"]), json.dumps(v.get("pair")))
        if cur is None or key < cur[0]:
            best[k] = (key, cfg, v)
    for k, (_, cfg, v) in sorted(best.items()):
        if k.startswith("MACHINERY"):
            common.machinery_exit(k)
        rep.violation(sig_of(v), dict(v, config=cfg), dict(cfg, history=v["history"], pair=v.get("pair"), schedule=v.get("schedule")))
    cov = {"states": tot["states"], "transitions": tot["transitions"] + tot["schedules"],
           "traces_validated_against_impl": tot["transitions"] + tot["schedules"],
           "samples": samples + [{"pair_example": "every two operations enabled on distinct threads in a state, all interleavings of their gates"}],
           "level1_states": tot["states"], "level1_transitions": tot["transitions"], "level1_pruned_by_drift_bound": tot["pruned"],
           "level2_pairs": tot["pairs"], "level2_schedules": tot["schedules"], "level2_max_gates_in_a_schedule": tot["max_gates"],
           "level2_pairs_capped": tot["capped_pairs"], "level2_distinct_gate_traces": tot["distinct_gate_traces"],
           "configs": cfgs, "exhaustive": tot["capped_pairs"] == 0 and not tot.get("capped_l1"),
           "explanation": "the explored object is the implementation itself (real BiasedRc on real OS threads whose gates are serialised by the harness "
                          "scheduler), so every explored trace is an implementation trace"}
    if "l2_state_stride_3threads" in tot:
        cov["level2_3thread_states_stride"] = 3
    return rep.finish("model_checking", cov, assumptions=[
        "sequential consistency at gate granularity: reorderings allowed by Relaxed orderings are not explored",
        "the queue maps' shard locks are modelled as one lock", "counter drift between owner-local and shared counters bounded (cap_total+1)"])


if __name__ == "__main__":
    sys.exit(main())
