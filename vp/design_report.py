"""python3 -m vp.design_report – regenerate section 0 of DESIGN.md (tables of hooks, fixes, known findings, seeds) from the repository state."""
import json, glob, os, re, subprocess
from collections import Counter
from .common import VERIF

MECH = {
 'C01': "static arity checks applied to dead code; JIT helper `unwrap`/`unreachable!` aborts; immediate lambda with a rest argument; MODULE CODE under the native tier: an error raised by an inlined primitive (car, vector-ref, arithmetic, comparison) does not leave native code, execution continues with void and the stashed error is overwritten at the function's return (`extern_handle_pop`): `(f 1)` with `(define (f x) (car x))` in a required module returns void, handlers are skipped; `num_equal_int` / arithmetic helpers `unreachable!()` on non-numbers (abort); a module containing `(cons)` or `(equal? 1 1 1)` panics while being required; `sub1` / `zero?` (prelude module functions) are instances",
 'C02': "the same native-tier behaviours seen as configuration dependence (JIT on/off), plus recursive-inlining differences for rest-argument functions inside modules",
 'C04': "transducer and exception-handler roots not scanned; weak boxes lose reachable targets (`make-weak-box` wraps a fresh unreachable box)",
 'C07': "builtins that panic or hang on particular argument kinds (listed by procedure and argument tuple)",
 'C08': "`apply` on a continuation; an error raised inside a handler panics; a continuation captured inside a handler; sibling extents sharing thunks confused",
 'C09': "stack growth of a loop through a handler tail",
 'C10': "exact/inexact division results; hash of 0.0 / -0.0",
 'C11': "float-zero keys",
 'C12': "printer / reader asymmetries (12 literal forms)",
 'C13': "binders introduced through `let*` / `letrec` / `do` / named-let templates not renamed when the user's variable is a global or a define-shorthand parameter; free identifiers of top-level macros captured by local use-site bindings",
 'C14': "a module whose dependency failed at run time during its first require stays 'compiled' but uninstantiated: later requires fail; alias names of a module's renaming import leak to its requirer; only-in at top level breaks a dependency's prefixed import of the same module in the same unit",
 'C16': "code that never reaches a safepoint (module-defined self tail loops compiled to an in-place native loop) blocks every stop-the-world operation of other threads",
 'C17': "self tail loops of module-defined functions compiled to an in-place native loop never poll (17 shapes, JIT on)",
 'C18': "deep chains (10^5..10^6) abort in drop / hash / traversal; printing cycles that pass through a hash map diverges (Debug of the map leaves the cycle-aware traversal); `write` of cycles overflows; hashing a cyclic key overflows; `equal?` of two pure box cycles diverges",
 'C20': "f32 overflow to infinity at the boundary",
}


def main():
    tmpl = open(os.path.join(VERIF, "vp", "design_section0.md.in")).read()
    kf = json.load(open(os.path.join(VERIF, "known_findings.json")))["findings"]
    log = subprocess.run(["git", "-C", "/repo", "log", "--reverse", "--format=%h %s"], capture_output=True, text=True).stdout.splitlines()
    fixes = [l for l in log if re.match(r"^[0-9a-f]+ fix:", l)]
    hooks = [l for l in log if re.match(r"^[0-9a-f]+ verif hook", l)]
    known = Counter(f["property"] for f in kf if f["status"] == "known")
    fixprop = {}
    for f in kf:
        if f["status"] == "fixed" and f.get("commit"):
            fixprop.setdefault(f["commit"][:8], set()).add(f["property"])
    H = ["| commit | hook |", "|---|---|"] + ["| %s | %s |" % (l.split(" ", 1)[0], l.split(" ", 1)[1].replace("verif hook ", "").replace("|", "/")) for l in hooks]
    F = ["| commit | property | defect |", "|---|---|---|"]
    for l in fixes:
        h, s = l.split(" ", 1)
        F.append("| %s | %s | %s |" % (h, ",".join(sorted(fixprop.get(h[:8], []))) or "-", s[5:].replace("|", "/")))
    K = ["| property | signatures | what fails (mechanisms) |", "|---|---|---|"] + ["| %s | %d | %s |" % (p, known[p], MECH.get(p, "see known_findings.json")) for p in sorted(known)]
    S = ["| seed | change | caught by | status |", "|---|---|---|---|"]
    for f in sorted(glob.glob(os.path.join(VERIF, "seeded", "*", "meta.json"))):
        m = json.load(open(f))
        name = os.path.basename(os.path.dirname(f))
        S.append("| %s | %s | %s quick | %s |" % (name, m.get("change", "").replace("|", "/")[:150], m.get("property", name[:3]), m.get("status", "")))
    sec = tmpl.replace("@HOOKS@", "\n".join(H)).replace("@FIXES@", "\n".join(F)).replace("@KNOWN@", "\n".join(K)).replace("@SEEDS@", "\n".join(S)).replace("@NKNOWN@", str(sum(known.values())))
    p = os.path.join(VERIF, "DESIGN.md")
    D = open(p).read()
    a = D.index("<!-- BEGIN build-report")
    a = D.index("\n", a) + 1
    b = D.index("<!-- END build-report -->")
    open(p, "w").write(D[:a] + sec + D[b:])
    print("DESIGN.md section 0 regenerated: %d hooks, %d fixes, %d known signatures, %d seeds" % (len(hooks), len(fixes), sum(known.values()), len(S) - 2))


if __name__ == "__main__":
    main()
