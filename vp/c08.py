"""C08 – continuations, dynamic-wind and handlers restore the captured control state.
Programs enumerated over: capture site x use (escape from nested depth / re-entry once, twice / after the extent returned / through
apply / tail position) x dynamic-wind nesting 0..2 with shared and distinct thunks x errors (body, before, after, handler) x
with-handler nesting; every side effect goes to the output trace. Oracle: trace + value + ok/err of vp/ref_scheme.py (CEK machine with
first-class continuations and the R7RS wind-list algorithm); run with JIT on, JIT off and a forced collection at every allocation."""
import sys, json, itertools
from . import common, c01

P = "C08"
PRE = "(define (in1) (display \"[\")) (define (out1) (display \"]\"))"


def wind(level, shared, body):
    if shared:
        return "(dynamic-wind in1 (lambda () %s) out1)" % body
    return "(dynamic-wind (lambda () (display \"<%d\")) (lambda () %s) (lambda () (display \">%d\")))" % (level, body, level)


def nest(depth, shared, body, base=0):
    for lv in range(depth, 0, -1):
        body = wind(base + lv, shared, body)
    return body


def programs(tier):
    P_ = []
    thorough = tier == "thorough"
    depths = (0, 1, 2)
    shareds = (False, True)
    # ---- escapes
    ESC = ["(k 7)", "(+ 1 (k 7))", "(apply k (list 7))", "7", "(begin (k 7) (display \"unreached\") 8)", "(car (list (k 7)))",
           "(error \"boom\")", "(begin (display \"m\") (k (begin (display \"n\") 9)))", "((lambda (j) (j 5)) k)"]
    for do in depths:
        for di in depths:
            for sh in shareds:
                if sh and do + di == 0:
                    continue
                for esc in ESC:
                    inner = nest(di, sh, esc, base=do)
                    body = nest(do, sh, "(list 'r (call/cc (lambda (k) %s)))" % inner)
                    P_.append(("escape:" + esc, "(define (main) (with-handler (lambda (e) (display \"H\") 'handled) %s)) (main)" % body))
    # ---- re-entry from outside the extent
    for do in depths:
        for sh in shareds:
            if sh and do == 0:
                continue
            for times in (1, 2, 3):
                for site in ("(+ 100 (call/cc (lambda (c) (set! k c) 1)))", "(list 1 (call/cc (lambda (c) (set! k c) 2)) 3)",
                             "(let ((a 5)) (+ a (call/cc (lambda (c) (set! k c) 1))))", "(car (map (lambda (x) (call/cc (lambda (c) (set! k c) x))) (list 4)))",
                             "(begin (display \"s\") (call/cc (lambda (c) (set! k c) 1)))"):
                    body = nest(do, sh, site)
                    P_.append(("reentry:" + site.split(" (call/cc")[0], "(define (main) (let ((k #f) (n 0)) (let ((v %s)) (display \"v\") (set! n (+ n 1)) (if (< n %d) (k (* n 10)) (list 'done v n))))) (main)"
                               % (body, times)))
    # sibling extents (the second extent may reuse the same thunks) and jumping between them
    for sh in shareds:
        for di in (1, 2):
            a = nest(di, sh, "(call/cc (lambda (c) (set! k c) 'a))")
            b = nest(di, sh, "(if (< n 2) (begin (set! n (+ n 1)) (k 'again)) 'b)", base=5 if not sh else 0)
            P_.append(("sibling-extents:" + ("shared-thunks" if sh else "distinct-thunks"), "(define (main) (let ((k #f) (n 0)) (let ((x %s)) (display \"x\") (let ((y %s)) (list x y n))))) (main)" % (a, b)))
    # ---- two control events in sequence in one thread: an extent is left (normally / by a handled error / by an escape), later another
    # continuation captured outside that extent is used (the wind list must be what it was before the extent was entered)
    for do in (1, 2):
        for sh in shareds:
            firsts = [("error", "(with-handler (lambda (e) (display \"H\") 'h) %s)" % nest(do, sh, "(begin (display \"b\") (error \"boom\"))", base=3)),
                      ("prim-error", "(with-handler (lambda (e) (display \"H\") 'h) %s)" % nest(do, sh, "(begin (display \"b\") (car 5))", base=3)),
                      ("escape", "(call/cc (lambda (j) %s))" % nest(do, sh, "(begin (display \"b\") (j 1))", base=3)),
                      ("normal", nest(do, sh, "(display \"b\")", base=3))]
            for fk, first in firsts:
                P_.append(("left-extent-then-escape:" + fk, "(define (main) (list 'r (call/cc (lambda (k) %s (display \"m\") (k 'escaped))))) (main)" % first))
                P_.append(("left-extent-then-reentry:" + fk, "(define (main) (let ((k #f) (n 0)) (let ((v (call/cc (lambda (c) (set! k c) 0)))) (display \"v\") %s (set! n (+ n 1)) "
                           "(if (< n 3) (k n) (list 'done v n))))) (main)" % first))
                P_.append(("left-extent-then-reentry-under-wind:" + fk, "(define (main) (let ((k #f) (n 0)) (dynamic-wind (lambda () (display \"<9\")) (lambda () (let ((v (call/cc (lambda (c) (set! k c) 0)))) "
                           "(display \"v\") %s (set! n (+ n 1)) (if (< n 3) (k n) (list 'done v n)))) (lambda () (display \">9\"))))) (main)" % first))
                P_.append(("left-extent-then-sibling-extent:" + fk, "(define (main) (let ((k #f) (n 0)) %s (let ((x %s)) (display \"x\") (set! n (+ n 1)) (if (< n 2) (k 'again) (list x n))))) (main)"
                           % (first, nest(do, sh, "(call/cc (lambda (c) (set! k c) 'a))", base=6))))
    # ---- map / pending arguments are not disturbed by re-entry
    P_ += [
        "(define (main) (let ((k #f) (n 0)) (let ((r (map (lambda (x) (call/cc (lambda (c) (if (= x 2) (set! k c) 0) x))) (list 1 2 3)))) (set! n (+ n 1)) (if (< n 2) (k 20) (list r n))))) (main)",
        "(define (main) (let ((k #f) (n 0) (acc '())) (let ((r (list 1 (call/cc (lambda (c) (set! k c) 2)) 3))) (set! acc (cons r acc)) (set! n (+ n 1)) (if (< n 3) (k (* 10 n)) (reverse acc))))) (main)",
        "(define (main) (let ((k #f) (n 0)) (let ((r (+ 1 (* 2 (call/cc (lambda (c) (set! k c) 3)))))) (set! n (+ n 1)) (if (< n 3) (k n) (list r n))))) (main)",
        "(define (main) (let ((k #f) (n 0)) (let ((r (let ((a 10) (b 20)) (+ a b (call/cc (lambda (c) (set! k c) 1)))))) (set! n (+ n 1)) (if (< n 2) (k 100) (list r n))))) (main)",
        "(define (main) (let ((k #f) (b (box 0))) (let ((r (let ((loc (+ 1 1))) (set-box! b (+ (unbox b) 1)) (+ loc (call/cc (lambda (c) (set! k c) 0)))))) (if (< (unbox b) 2) (begin (set-box! b 2) (k 5)) (list r (unbox b)))))) (main)",
    ]
    # ---- generators / coroutines
    P_ += [
        "(define (main) (define (tree-walk t out) (cond ((null? t) 'ok) ((pair? t) (tree-walk (car t) out) (tree-walk (cdr t) out)) (else (out t)))) "
        "(define (gen t) (define ret #f) (define (resume-point) (tree-walk t (lambda (x) (call/cc (lambda (next) (set! resume-point (lambda () (next 'go))) (ret x))))) (ret 'end)) "
        "(lambda () (call/cc (lambda (r) (set! ret r) (resume-point))))) (let ((g (gen (list 1 (list 2 3) 4)))) (let* ((a (g)) (b (g)) (c (g)) (d (g)) (e (g))) (list a b c d e)))) (main)",
        "(define (main) (let ((k1 #f) (out '())) (define (note x) (set! out (cons x out))) (let ((v (call/cc (lambda (c) (set! k1 c) 0)))) (note v) (if (< v 3) (k1 (+ v 1)) (reverse out))))) (main)",
        "(define (main) (let ((r '()) (k #f)) (dynamic-wind (lambda () (set! r (cons 'in r))) (lambda () (call/cc (lambda (c) (set! k c))) (set! r (cons 'body r))) (lambda () (set! r (cons 'out r)))) (if (< (length r) 6) (k 1) (reverse r)))) (main)",
    ]
    # ---- errors and handlers
    ERRP = ["(error \"boom\")", "(car 5)", "(vector-ref (vector) 1)", "(apply (lambda (x) x) '())"]
    for do in depths:
        for di in depths:
            for sh in shareds:
                if sh and do + di == 0:
                    continue
                for ep in (ERRP if thorough else ERRP[:2]):
                    inner = nest(di, sh, "(begin (display \"b\") %s (display \"unreached\"))" % ep, base=do)
                    P_.append(("error-under-winds", "(define (main) %s) (main)" % nest(do, sh, "(with-handler (lambda (e) (display \"H\") 'caught) %s)" % inner)))
                    P_.append(("error-raised-in-handler", "(define (main) (with-handler (lambda (e) (display \"O\") 'outer) %s)) (main)"
                               % nest(do, sh, "(with-handler (lambda (e) (display \"I\") (error \"again\")) %s)" % inner)))
    P_ += [
        # error in before / after thunks
        "(define (main) (with-handler (lambda (e) (display \"H\") 'c) (dynamic-wind (lambda () (display \"i\") (car 1)) (lambda () (display \"b\")) (lambda () (display \"o\"))))) (main)",
        "(define (main) (with-handler (lambda (e) (display \"H\") 'c) (dynamic-wind (lambda () (display \"i\")) (lambda () (display \"b\") 1) (lambda () (display \"o\") (car 1))))) (main)",
        # (an error raised by an after thunk while unwinding to a handler: whether that same handler sees it is not pinned down)
        "(define (main) (with-handler (lambda (e) (display \"H\") 'c) (dynamic-wind (lambda () (display \"1\")) (lambda () (dynamic-wind (lambda () (display \"2\")) (lambda () (error \"x\")) (lambda () (display \"3\")))) (lambda () (display \"4\"))))) (main)",
        # handler returns normally: value of the with-handler expression; code after it continues
        "(define (main) (let ((v (with-handler (lambda (e) 42) (+ 1 (car 0))))) (display \"after\") (list v))) (main)",
        "(define (main) (+ 1 (with-handler (lambda (e) 10) (+ 100 (error \"x\"))))) (main)",
        "(define (main) (map (lambda (x) (with-handler (lambda (e) 'bad) (if (= x 2) (car x) x))) (list 1 2 3))) (main)",
        # handler + continuation interplay
        "(define (main) (call/cc (lambda (k) (with-handler (lambda (e) (k 'escaped-from-handler)) (car 1))))) (main)",
        "(define (main) (let ((k #f) (n 0)) (let ((v (with-handler (lambda (e) (display \"H\") 'h) (+ 1 (call/cc (lambda (c) (set! k c) 1)))))) (set! n (+ n 1)) (if (< n 2) (k 'x) (list v n))))) (main)",
        "(define (main) (let ((k #f) (n 0)) (let ((v (with-handler (lambda (e) (call/cc (lambda (c) (set! k c) 'first))) (car 1)))) (set! n (+ n 1)) (if (< n 2) (k 'second) (list v n))))) (main)",
        "(define (main) (with-handler (lambda (e) 'outer) (with-handler (lambda (e) 'inner) 1) (car 1))) (main)",
        "(define (main) (list (with-handler (lambda (e) 'a) (car 1)) (with-handler (lambda (e) 'b) (cdr 1)) (with-handler (lambda (e) 'c) 3))) (main)",
        "(define (f n) (if (= n 0) (error \"deep\") (+ 1 (f (- n 1))))) (define (main) (with-handler (lambda (e) 'deep-caught) (f 50))) (list (main) (main))",
        "(define (main) (let loop ((i 0) (acc '())) (if (= i 3) (reverse acc) (loop (+ i 1) (cons (with-handler (lambda (e) (* i 10)) (if (odd? i) (car i) i)) acc))))) (main)",
        # tail calls of continuations
        "(define (f k) (k 1)) (define (main) (+ 10 (call/cc (lambda (k) (f k))))) (main)",
        "(define (main) (call/cc (lambda (k) (let loop ((i 0)) (if (= i 5) (k i) (loop (+ i 1))))))) (main)",
        "(define (main) (let ((k2 #f)) (+ 1 (call/cc (lambda (k) (set! k2 k) (k (call/cc (lambda (j) (j 5))))))))) (main)",
        "(define (main) (call/cc (lambda (k) (dynamic-wind (lambda () (display \"i\")) (lambda () (call/cc (lambda (j) (k 'out)))) (lambda () (display \"o\")))))) (main)",
    ]
    out = []
    seen = set()
    for k, p in enumerate(P_):
        fam, p = p if isinstance(p, tuple) else ("single:" + p[:70], p)
        if p not in seen:
            seen.add(p)
            out.append((fam, [PRE + " " + p]))
    return out


def work(item):
    env, lst = item
    fails, skipped, n = [], 0, 0
    cases, refs = [], {}
    for i, steps in lst:
        rf = c01.reference(steps)
        if rf is None:
            skipped += 1
            continue
        refs[i] = rf
        c = {"id": i, "steps": steps}
        if env and "STEEL_VERIF_GC" in env:
            c = {"id": i, "env": {"STEEL_VERIF_GC": env["STEEL_VERIF_GC"]}, "steps": [{"op": "gcplan", "on": True}] + steps}
        cases.append(c)
    henv = {k: v for k, v in (env or {}).items() if k != "STEEL_VERIF_GC"} or None
    res = common.run_cases(cases, env=henv, batch=1, timeout_ms=30000)
    for i, steps in lst:
        if i not in refs:
            continue
        n += 1
        r = res[i]
        if env and "STEEL_VERIF_GC" in env and r["exit"] == "normal":
            r = dict(r, steps=r["steps"][1:])
        obs = c01.observe(r, len(steps))
        d = c01.compare(refs[i], obs)
        if d is not None:
            fails.append((steps, d, refs[i], obs, env))
    return n, skipped, fails


# ---- programs with hand-derived expected results (constructs the CEK reference does not model: stdlib shift / reset, raw
# call-with-exception-handler inside callbacks of native higher-order procedures)
def explicit_programs():
    E = []
    sr = [("(reset (+ 1 (shift k (* 2 (k 5)))))", "(i 12)"), ("(reset (+ 1 (shift k (k (k 5)))))", "(i 7)"), ("(reset (* 2 (shift k (+ (k 1) (k 2)))))", "(i 6)"),
          ("(reset (+ 1 (shift k 10)))", "(i 10)"), ("(+ 100 (reset (+ 1 (shift k (k 1)))))", "(i 102)"), ("(reset (+ 1 (shift k (+ 10 (k 1)))))", "(i 12)"),
          ("(reset (list 'a (shift k (cons 'x (k 'b)))))", "(lst (sym \"x\") (sym \"a\") (sym \"b\"))"),
          ("(reset (+ (shift k (+ (k 1) (k 10))) (shift k2 (* 2 (k2 3)))))", "(i 34)"),
          ("(let ((r (reset (begin (shift k (list (k 1) (k 2))) ))) ) r)", None),
          ("(reset (reset (+ 1 (shift k (k (k 1))))))", "(i 3)"), ("(+ 1 (reset (* 2 (reset (+ 1 (shift k (k (k 1))))))))", "(i 7)"),
          ("(define (gen-list thunk) (reset (begin (thunk) '()))) (define (yield v) (shift k (cons v (k #f)))) (gen-list (lambda () (yield 1) (yield 2) (yield 5)))", "(lst (i 1) (i 2) (i 5))"),
          ("(let ((saved #f)) (list (reset (+ 1 (shift k (begin (set! saved k) (k 1))))) (saved 10) (saved 20)))", "(lst (i 2) (i 11) (i 21))")]
    for p, w in sr:
        if w is not None:
            E.append(("shift-reset", "(define (main) %s) (main)" % p if not p.startswith("(define") else p, w, None))
    # an error raised by a handler that was dispatched from inside a callback of a native higher-order procedure goes to the NEXT handler out
    cbs = [("map", "(map (lambda (x) {B}) (list 1))"), ("for-each", "(for-each (lambda (x) {B}) (list 1))"), ("foldl", "(foldl (lambda (x acc) {B}) 0 (list 1))"),
           ("transduce", "(transduce (list 1) (mapping (lambda (x) {B})) (into-list))"), ("filter", "(filter (lambda (x) {B}) (list 1))"),
           ("sort", "(sort (list 2 1) (lambda (a b) {B}))"), ("apply", "(apply (lambda (x) {B}) (list 1))"), ("direct", "((lambda (x) {B}) 1)")]
    inner = "(call-with-exception-handler (lambda (e) (display \"I\") (error \"again\")) (lambda () (display \"b\") (car 5)))"
    for cn, cb in cbs:
        body = cb.replace("{B}", inner)
        E.append(("handler-raises-inside-native-callback:" + cn,
                  "(define (main) (call-with-exception-handler (lambda (e) (display \"O\") 'outer-handled) (lambda () %s))) (main)" % body, None, "bIO"))
        E.append(("handler-returns-inside-native-callback:" + cn,
                  "(define (main) (call-with-exception-handler (lambda (e) (display \"O\") 'outer) (lambda () %s))) (main)"
                  % cb.replace("{B}", "(call-with-exception-handler (lambda (e) (display \"I\") 1) (lambda () (display \"b\") (+ 1 (car 5))))"), None, None))
    return E


def work_explicit(item):
    env, lst = item
    fails = []
    for fam, prog, want, out in lst:
        henv = {k: v for k, v in (env or {}).items() if k != "STEEL_VERIF_GC"} or None
        steps = [PRE + " " + prog]
        c = {"id": 0, "steps": steps}
        if env and "STEEL_VERIF_GC" in env:
            c = {"id": 0, "env": {"STEEL_VERIF_GC": env["STEEL_VERIF_GC"]}, "steps": [{"op": "gcplan", "on": True}] + steps}
        r = common.run_cases([c], env=henv, batch=1, timeout_ms=20000)[0]
        if r["exit"] != "normal":
            fails.append((fam, prog, "crash:" + r["exit"], env))
            continue
        st = r["steps"][-1]
        if st["s"] == "panic":
            fails.append((fam, prog, "panic", env))
        elif want is not None and (st["s"] != "ok" or st["v"][-1] != want):
            fails.append((fam, prog, "value: want %s got %s" % (want, (st.get("v") or [st.get("m", "")])[-1][:80]), env))
        elif out is not None and st.get("out") != out:
            fails.append((fam, prog, "output: want %s got %s (%s)" % (out, st.get("out"), st["s"]), env))
    return len(lst), fails


def still(steps, env, cls):
    rf = c01.reference(steps)
    if rf is None:
        return False
    n, s, f = work((env, [(0, steps)]))
    return bool(f) and c01.classify(f[0][1]) == cls


def shrink_one(f):
    from .shrink import shrink
    steps, d, rf, obs, env = f
    cls = c01.classify(d)
    m = shrink(steps[0], lambda t: still([t], env, cls), atoms=("1",), max_calls=900)
    return [m], cls, f


def main(argv=None):
    a = common.parse_args(argv)
    if a.replay:
        r = json.load(open(a.replay))
        print(json.dumps(r, indent=1, ensure_ascii=False)[:3000])
        common.build()
        rp = r["replay"]
        n, s, f = work((rp.get("env"), [(0, rp["case"]["steps"])]))
        print("now:", f)
        return 1 if f else 0
    common.build()
    rep = common.Reporter(P, a.tier)
    fprogs = programs(a.tier)
    progs = [p for f, p in fprogs]
    fam_of = {p[0]: f for f, p in fprogs}
    envs = [None, {"STEEL_JIT": "false"}, {"STEEL_VERIF_GC": "every"}]
    items = [(env, ch) for env in envs for ch in common.chunks(list(enumerate(progs)), 60)]
    results = common.pmap(work, items)
    n = sum(r[0] for r in results)
    skipped = sum(r[1] for r in results)
    fails = sorted([f for r in results for f in r[2]], key=lambda f: (len(f[0][0]), f[0][0], json.dumps(f[4])))
    ex = explicit_programs()
    eres = common.pmap(work_explicit, [(env, ch) for env in envs for ch in common.chunks(ex, 8)])
    n += sum(r[0] for r in eres)
    eseen = set()
    for fam, prog, why, env in sorted([f for r in eres for f in r[1]], key=lambda f: (f[0], len(f[1]), json.dumps(f[3]))):
        key = (fam, why.split(":")[0])
        if key in eseen:
            continue
        eseen.add(key)
        rep.violation("%s :: %s :: %s" % (fam, why, prog), {"program": prog, "why": why, "env": env}, {"case": {"steps": [PRE + " " + prog]}, "env": env})
    # minimal case per (family, failure class): the smallest failing program of the enumeration (programs are generated
    # simplest-first; structural shrinking drifts between mechanisms here, so none is applied)
    seen = set()
    for steps, d, rf, obs, env in fails:
        key = (fam_of[steps[0]], c01.classify(d))
        if key in seen:
            continue
        seen.add(key)
        rep.violation("%s :: %s :: %s" % (key[0], key[1], steps[0][len(PRE) + 1:]),
                      {"program": steps, "disagreement": d, "reference": rf, "observed": obs, "env": env},
                      {"case": {"steps": steps}, "env": env, "expected": rf})
    cov = {"evaluations": n, "distinct_nontrivial": len(progs) - skipped // len(envs),
           "rule": "programs = escapes (9 uses x wind depth outside 0..2 x inside 0..2 x shared/distinct thunks), re-entry from outside the extent (5 capture "
                   "sites x depth 0..2 x shared/distinct x 1..3 entries), sibling extents, pending-argument/map re-entry, generators, errors raised in body / "
                   "before / after / handler under winds 0..2 x 0..2 with nested handlers, handler-continuation interplay; each compared with the CEK reference "
                   "on trace, value and ok/err under JIT on, JIT off and a forced collection at every allocation; distinct = programs the reference defines",
           "samples": [progs[10][0], progs[len(progs) // 2][0], progs[-1][0]], "exhaustive": True, "programs": len(progs), "configs": 3,
           "skipped_unspecified": skipped, "raw_failures": len(fails)}
    return rep.finish("exploration", cov, assumptions=["reference: vp/ref_scheme.py (R7RS 6.10 wind-list algorithm written from the report)",
                                                       "continuations are delimited by the top-level form; every program is one form"])


if __name__ == "__main__":
    sys.exit(main())
