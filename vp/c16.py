"""C16 – threads always make progress through collections and global updates; joins deliver once; channels deliver once, in order.
Deciding method: the same controlled scheduler and stateless depth-first exploration as C15 (every schedule with at most b preemptions at
the gates of hook H7, each on a freshly forked engine), over drivers that make world-stopping operations meet each other and meet
blocked / exiting / starting threads: two and three threads that assign or define globals and collect at the same time; a thread blocked
in thread-join!, channel/recv (directly and from inside map), lock-acquire! or a sleep while another stops the world; a thread that
exits or is being spawned during a collection; producers and consumers on channels with collections in between.
Oracle per schedule: the evaluation completes – no deadlock (no runnable thread for 1.5 s while some are unfinished), no livelock (only
spinning threads runnable for 1.5 s), no hang (20 s) – and its value is one of the values the script's own logic allows: every sent
value received exactly once and in order per sender, a join result delivered exactly once (a second join is an error value), the counter
protected by a mutex equals the number of increments."""
import sys, json, itertools
from . import common, schedx

P = "C16"
PRE = ("(define g 0) (define h 0) (define lst (list 1 2)) (define (inc!) (set! g (+ g 1))) "
       "(define (join-tail t) (thread-join! t)) (define (recv-tail r) (channel/recv r)) (define (lock-tail m) (lock-acquire! m))")


def enc_list(xs):
    return "(lst" + "".join(" " + x for x in xs) + ")"


def i(n):
    return "(i %d)" % n


def sym(s):
    return "(sym \"%s\")" % s


def interleavings(a, b):
    if not a:
        return [list(b)]
    if not b:
        return [list(a)]
    return [[a[0]] + r for r in interleavings(a[1:], b)] + [[b[0]] + r for r in interleavings(a, b[1:])]


# (name, program, set of allowed results or None = any value, threads)
def drivers():
    D = []
    # world-stoppers meeting each other
    D.append(("set||set", "(let* ((t1 (spawn-native-thread (lambda () (set! g 1) 'a)))) (set! h 2) (list (thread-join! t1) g h))", {enc_list([sym("a"), i(1), i(2)])}, 2))
    D.append(("set||gc", "(let* ((t1 (spawn-native-thread (lambda () (set! g 1) 'a)))) (#%gc-collect) (list (thread-join! t1) g))", {enc_list([sym("a"), i(1)])}, 2))
    D.append(("gc||gc", "(let* ((t1 (spawn-native-thread (lambda () (#%gc-collect) 'a)))) (#%gc-collect) (list (thread-join! t1)))", {enc_list([sym("a")])}, 2))
    D.append(("define||gc", "(let* ((t1 (spawn-native-thread (lambda () (eval '(define k1 7)) 'a)))) (#%gc-collect) (list (thread-join! t1) (eval 'k1)))", {enc_list([sym("a"), i(7)])}, 2))
    D.append(("define||set", "(let* ((t1 (spawn-native-thread (lambda () (eval '(define k1 7)) 'a)))) (set! g 3) (list (thread-join! t1) (eval 'k1) g))", {enc_list([sym("a"), i(7), i(3)])}, 2))
    D.append(("alloc+gc||alloc+set", "(let* ((t1 (spawn-native-thread (lambda () (let ((b (box 1))) (#%gc-collect) (unbox b)))))) (let ((c (vector 1 2))) (set! g 5) (list (thread-join! t1) (vector-ref c 1) g)))",
              {enc_list([i(1), i(2), i(5)])}, 2))
    # blocked threads while the world is stopped
    D.append(("join-blocked||gc", "(let* ((t1 (spawn-native-thread (lambda () (#%gc-collect) (set! g 1) 'a)))) (list (thread-join! t1) g))", {enc_list([sym("a"), i(1)])}, 2))
    D.append(("recv-blocked||gc+send", "(let* ((ch (channels/new)) (s (channels-sender ch)) (r (channels-receiver ch)) (t1 (spawn-native-thread (lambda () (#%gc-collect) (channel/send s 1) (set! g 1) (channel/send s 2) 'a))))"
              " (let* ((x (channel/recv r)) (y (channel/recv r))) (list x y (thread-join! t1) g)))", {enc_list([i(1), i(2), sym("a"), i(1)])}, 2))
    D.append(("recv-inside-map||gc+send", "(let* ((ch (channels/new)) (s (channels-sender ch)) (r (channels-receiver ch)) (t1 (spawn-native-thread (lambda () (#%gc-collect) (channel/send s 1) (channel/send s 2) 'a))))"
              " (let ((xs (map (lambda (k) (channel/recv r)) (list 1 2)))) (list xs (thread-join! t1))))", {enc_list([enc_list([i(1), i(2)]), sym("a")])}, 2))
    D.append(("mutex||mutex+gc", "(let* ((m (mutex)) (t1 (spawn-native-thread (lambda () (let ((gd (lock-acquire! m))) (#%gc-collect) (inc!) (lock-release! gd) 'a)))))"
              " (let ((gd (lock-acquire! m))) (inc!) (lock-release! gd)) (list (thread-join! t1) g))", {enc_list([sym("a"), i(2)])}, 2))
    D.append(("sleep||set", "(let* ((t1 (spawn-native-thread (lambda () (time/sleep-ms 1) (set! g 1) 'a)))) (set! h 1) (list (thread-join! t1) g h))", {enc_list([sym("a"), i(1), i(1)])}, 2))
    # a blocking primitive called in tail position of a (natively compiled) top-level function
    D.append(("join-in-tail-position||gc", "(let* ((t1 (spawn-native-thread (lambda () (#%gc-collect) (set! g 1) 'a)))) (list (join-tail t1) g))", {enc_list([sym("a"), i(1)])}, 2))
    D.append(("recv-in-tail-position||gc+send", "(let* ((ch (channels/new)) (s (channels-sender ch)) (r (channels-receiver ch)) (t1 (spawn-native-thread (lambda () (#%gc-collect) (channel/send s 1) (set! g 1) 'a))))"
              " (let ((x (recv-tail r))) (list x (thread-join! t1) g)))", {enc_list([i(1), sym("a"), i(1)])}, 2))
    D.append(("lock-in-tail-position||lock+gc", "(let* ((m (mutex)) (t1 (spawn-native-thread (lambda () (let ((gd (lock-acquire! m))) (#%gc-collect) (inc!) (lock-release! gd) 'a)))))"
              " (let ((gd (lock-tail m))) (inc!) (lock-release! gd)) (list (thread-join! t1) g))", {enc_list([sym("a"), i(2)])}, 2))
    # exit / start during a stop
    D.append(("exit||gc", "(let* ((t1 (spawn-native-thread (lambda () 'a)))) (#%gc-collect) (#%gc-collect) (list (thread-join! t1)))", {enc_list([sym("a")])}, 2))
    D.append(("exit||set", "(let* ((t1 (spawn-native-thread (lambda () 'a)))) (set! g 1) (set! g 2) (list (thread-join! t1) g))", {enc_list([sym("a"), i(2)])}, 2))
    D.append(("join-twice", "(let* ((t1 (spawn-native-thread (lambda () (set! g 1) 'a)))) (let* ((x (thread-join! t1)) (y (with-handler (lambda (e) 'already) (thread-join! t1)))) (list x y g)))",
              {enc_list([sym("a"), sym("already"), i(1)])}, 2))
    # three threads
    D.append(("set||set||gc", "(let* ((t1 (spawn-native-thread (lambda () (set! g 1) 'a))) (t2 (spawn-native-thread (lambda () (#%gc-collect) 'b)))) (set! h 2) (list (thread-join! t1) (thread-join! t2) g h))",
              {enc_list([sym("a"), sym("b"), i(1), i(2)])}, 3))
    D.append(("spawn-in-thread||gc", "(let* ((t1 (spawn-native-thread (lambda () (let ((t3 (spawn-native-thread (lambda () (set! g 1) 'c)))) (thread-join! t3)))))) (#%gc-collect) (list (thread-join! t1) g))",
              {enc_list([sym("c"), i(1)])}, 3))
    D.append(("t2-joins-t1||gc", "(let* ((t1 (spawn-native-thread (lambda () (set! g 1) 'a))) (t2 (spawn-native-thread (lambda () (list 'b (thread-join! t1)))))) (#%gc-collect) (list (thread-join! t2) g))",
              {enc_list([enc_list([sym("b"), sym("a")]), i(1)])}, 3))
    two = set()
    for order in interleavings([i(11), i(12)], [i(21), i(22)]):
        two.add(enc_list([enc_list(order), sym("a"), sym("b")]))
    D.append(("two-senders||recv", "(let* ((ch (channels/new)) (s (channels-sender ch)) (r (channels-receiver ch)) (t1 (spawn-native-thread (lambda () (channel/send s 11) (#%gc-collect) (channel/send s 12) 'a)))"
              " (t2 (spawn-native-thread (lambda () (channel/send s 21) (channel/send s 22) 'b)))) (let* ((w (channel/recv r)) (x (channel/recv r)) (y (channel/recv r)) (z (channel/recv r)))"
              " (list (list w x y z) (thread-join! t1) (thread-join! t2))))", two, 3))
    return D


CONFIGS = [("jit-on", None), ("jit-off", {"STEEL_JIT": "false"})]


def judge(allowed):
    def j(val, rep, ex):
        out = []
        if rep["outcome"] != "completed":
            th = ", ".join("%d:%s@%s" % (t["id"], t["status"].lower(), t["last_gate"]) for t in rep["threads"])
            out.append((rep["outcome"], "threads %s" % th))
        elif ex != "normal":
            out.append(("hang" if ex == "timeout" else "crash", "engine exit %s" % ex))
        elif val is None or val.startswith("ERR:") or val.startswith("PANIC:"):
            out.append(("error", str(val)[:140]))
        elif allowed is not None and val not in allowed:
            out.append(("wrong-result", "%s is not a result the script's logic allows" % val[:160]))
        return out
    return j


def work_root(item):
    di, ci, bound = item
    name, prog, allowed, nth = drivers()[di]
    val, rep, ex = schedx.run_schedule(PRE, prog, [], env=CONFIGS[ci][1])
    if rep is None:
        return (item, None, [([], "hang" if ex == "timeout" else "crash", "no report, exit=%s" % ex)])
    kids = schedx.children(rep["points"], 0, bound)
    fails = [([], c, d) for c, d in judge(allowed)(val, rep, ex)]
    return (item, kids, fails)


def work_sub(item):
    di, ci, bound, roots = item
    name, prog, allowed, nth = drivers()[di]
    tot = {"runs": 0, "outcomes": {}, "failures": [], "divergent": 0, "capped": False, "maxpoints": 0}
    for root in roots:
        res = schedx.explore_subtree(PRE, prog, root, bound, env=CONFIGS[ci][1], judge=judge(allowed), maxruns=5000)
        tot["runs"] += res["runs"]
        for k, v in res["outcomes"].items():
            tot["outcomes"][k] = tot["outcomes"].get(k, 0) + v
        tot["failures"] += res["failures"]
        tot["divergent"] += res["divergent"]
        tot["capped"] = tot["capped"] or res["capped"]
        tot["maxpoints"] = max(tot["maxpoints"], res["maxpoints"])
    return (di, ci, tot)


# ------------------------------------------------------------------ (b) a stop request against every long-running code path
# Under the controlled scheduler a thread that passes no gates runs atomically, so code that never reaches a safepoint cannot be seen
# there.  This part runs free: a spawned thread executes the endless variant of every C17 program shape (after the bounded variant has
# been run so that hot code is compiled natively); 30 ms later the engine thread assigns a global (a stop-the-world operation): the
# assignment must complete although the other thread never finishes.  Finite grid: shape x {native code on, off} x placement of the
# definitions {separate unit, same unit as the first call, required module}.
def stop_vs_path_steps(shape, unit):
    from . import c17
    name, defs, warm, endless = shape
    if unit == "same-unit":
        steps = [defs + " " + warm, "'done"]
    elif unit == "module":
        steps = ["(require \"%s\")" % c17.module_file(shape), warm]
    else:
        steps = [defs, warm]
    steps.append("(define vf-g 0)")
    steps.append("(let ((t (spawn-native-thread (lambda () %s)))) (time/sleep-ms 30) (vf-mark 1) (set! vf-g 1) (vf-mark 2) (#%%gc-collect) (vf-mark 3) (thread-interrupt t) "
                 "(with-handler (lambda (e) 'stopped) (thread-join! t)) (list vf-g))" % endless)
    return steps


def work_stop_vs_path(item):
    from . import c17
    si, ci, unit = item
    shape = c17.SHAPES[si]
    r = common.run_cases([{"id": 0, "steps": stop_vs_path_steps(shape, unit)}], env=CONFIGS[ci][1], batch=1, timeout_ms=5000)[0]
    name = "%s/%s%s" % (shape[0], CONFIGS[ci][0], "" if unit == "separate" else "/" + unit)
    if r["exit"] == "normal":
        st = r["steps"]
        if st[0]["s"] != "ok" or st[1]["s"] != "ok" or not st[1]["v"] or st[1]["v"][-1] != '(sym "done")':
            return (name, "not-applicable", "")
        last = st[-1]
        if last["s"] == "ok" and last["v"][-1] == "(lst (i 1))":
            return (name, "ok", "")
        return (name, "error", (last.get("m") or str(last.get("v")))[:120])
    lm = str(r.get("last_mark"))
    if r["exit"] == "timeout":
        if lm == "1":
            return (name, "stop-blocked", "assigning a global never completed while the other thread was running this code")
        if lm == "2":
            return (name, "collection-blocked", "a full collection never completed while the other thread was running this code")
        if lm == "3":
            return (name, "ok-but-uninterruptible", "")  # the thread cannot be interrupted: C17's subject
        return (name, "not-applicable", "timeout before the experiment (mark %s)" % lm)
    return (name, "crash", "engine exit %s" % r["exit"])


def main(argv=None):
    a = common.parse_args(argv)
    if a.replay:
        return common.replay_eval(a.replay)
    common.build()
    rep = common.Reporter(P, a.tier)
    D = drivers()
    items = []
    for di, d in enumerate(D):
        for ci in range(len(CONFIGS)):
            if ci == 1 and a.tier != "thorough" and di % 2:
                continue
            bound = (2 if d[3] == 2 else 1) if a.tier != "thorough" else (3 if d[3] == 2 else 2)
            items.append((di, ci, bound))
    roots = common.pmap(work_root, items)
    per = {}
    subs = []
    for (di, ci, bound), kids, fails in roots:
        per[(di, ci)] = {"runs": 1, "outcomes": {}, "failures": list(fails), "divergent": 0, "capped": False, "maxpoints": 0, "bound": bound}
        for part in common.split_round_robin(kids or [], 5):
            subs.append((di, ci, bound, part))
    for di, ci, tot in common.pmap(work_sub, subs):
        d = per[(di, ci)]
        d["runs"] += tot["runs"]
        for k, v in tot["outcomes"].items():
            d["outcomes"][k] = d["outcomes"].get(k, 0) + v
        d["failures"] += tot["failures"]
        d["divergent"] += tot["divergent"]
        d["capped"] = d["capped"] or tot["capped"]
        d["maxpoints"] = max(d["maxpoints"], tot["maxpoints"])
    total = 0
    table = {}
    for (di, ci), d in sorted(per.items()):
        name = D[di][0] + "/" + CONFIGS[ci][0]
        total += d["runs"]
        table[name] = {"schedules": d["runs"], "bound": d["bound"], "distinct_results": len(d["outcomes"]), "max_scheduling_points": d["maxpoints"], "divergent_replays": d["divergent"], "capped": d["capped"]}
        by_class = {}
        for prefix, cls, detail in d["failures"]:
            cur = by_class.get(cls)
            if cur is None or len(prefix) < len(cur[0]):
                by_class[cls] = (prefix, detail)
        for cls, (prefix, detail) in sorted(by_class.items()):
            n = sum(1 for f in d["failures"] if f[1] == cls)
            rep.violation("%s :: %s :: %s" % (cls, name, detail[:160]), {"driver": name, "program": D[di][1], "class": cls, "detail": detail, "schedules_failing": n, "schedules_explored": d["runs"], "choice_prefix": prefix},
                          {"case": {"steps": [PRE, {"op": "sched_arm", "choices": prefix, "report_path": "/dev/null"}, D[di][1], {"op": "sched_report"}]}, "env": CONFIGS[ci][1]})
    from . import c17
    import shutil
    shutil.rmtree(c17.MODDIR, ignore_errors=True)
    for sh in c17.SHAPES:
        c17.module_file(sh)
    pitems = [(si, ci, unit) for si in range(len(c17.SHAPES)) for ci in range(len(CONFIGS)) for unit in ("separate", "same-unit", "module")]
    pres = common.pmap(work_stop_vs_path, pitems)
    pcount = {}
    for (si, ci, unit), (name, cls, detail) in zip(pitems, pres):
        pcount[cls] = pcount.get(cls, 0) + 1
        if cls in ("stop-blocked", "collection-blocked", "error", "crash"):
            rep.violation("%s :: %s :: %s" % (cls, name, detail), {"path": name, "class": cls, "detail": detail},
                          {"case": {"steps": stop_vs_path_steps(c17.SHAPES[si], unit)}, "env": CONFIGS[ci][1], "timeout_ms": 5000})
    total += len(pitems)
    cov = {"evaluations": total, "distinct_nontrivial": total,
           "rule": "every schedule with at most 2 preemptions (three-thread drivers: 1; thorough: 3 and 2) of %d drivers x {native code on, off (quick: every second driver)}; a scheduling point "
                   "is every gate of hook H7 reached by the running thread; each schedule re-executes the driver on a freshly forked engine; plus (free-running) a stop request against every "
                   "long-running code path: 37 program shapes x {native code on, off} x {separate unit, same unit, module}" % len(D),
           "samples": [D[0][1], D[7][1][:200]], "exhaustive": not any(t["capped"] for t in table.values()), "drivers": table, "stop_request_vs_code_path": pcount}
    return rep.finish("model_checking", cov, assumptions=["interleavings are sequentially consistent at gate granularity", "a thread whose kernel state is 'sleeping' for 5 consecutive 1 ms polls is blocked in native code",
                                                           "progress is judged by wall-clock limits (1.5 s without a runnable thread = deadlock, 1.5 s of only spinning threads = livelock)"])


if __name__ == "__main__":
    sys.exit(main())
