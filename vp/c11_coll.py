"""C11 (b): BFS over operation sequences on collections against plain Python models.
A state is a model value; it is reached on the implementation by the (shortest) nested expression that produced it.
Every transition (state, operation) is executed on the real engine and compared with the model: result value or error."""
import json
from . import common

ERR = "ERR"


# ---- encodings of model values (must match steel::verif::encode) ----
def enc(v):
    if v is True:
        return "#t"
    if v is False:
        return "#f"
    if isinstance(v, int):
        return "(i %d)" % v
    if isinstance(v, str):
        return "(str %s)" % json.dumps(v, ensure_ascii=False)
    if isinstance(v, Sym):
        return "(sym %s)" % json.dumps(v.n, ensure_ascii=False)
    if isinstance(v, Chr):
        return "(chr %d)" % ord(v.c)
    if isinstance(v, MVec):
        return "(mvec" + "".join(" " + enc(x) for x in v.items) + ")"
    if isinstance(v, Vec):
        return "(vec" + "".join(" " + enc(x) for x in v.items) + ")"
    if isinstance(v, tuple):
        return "(lst" + "".join(" " + enc(x) for x in v) + ")"
    if isinstance(v, frozenset):
        return "(hset" + "".join(" " + s for s in sorted(enc(x) for x in v)) + ")"
    if isinstance(v, HM):
        items = sorted((enc(k), enc(x)) for k, x in v.d)
        return "(hash" + "".join(" (%s %s)" % kv for kv in items) + ")"
    if isinstance(v, Void):
        return "(void)"
    raise ValueError(v)


def lit(v):
    if v is True:
        return "#t"
    if v is False:
        return "#f"
    if isinstance(v, int):
        return str(v)
    if isinstance(v, str):
        return json.dumps(v, ensure_ascii=False)
    if isinstance(v, Sym):
        return "'" + v.n
    if isinstance(v, Chr):
        return "#\\" + v.c
    if isinstance(v, tuple):
        return "(list" + "".join(" " + lit(x) for x in v) + ")"
    if isinstance(v, MVec):
        return "(vector" + "".join(" " + lit(x) for x in v.items) + ")"
    if isinstance(v, Vec):
        return "(vector-immutable" + "".join(" " + lit(x) for x in v.items) + ")"
    if isinstance(v, frozenset):
        return "(hashset" + "".join(" " + lit(x) for x in sorted(v, key=enc)) + ")"
    if isinstance(v, HM):
        return "(hash" + "".join(" %s %s" % (lit(k), lit(x)) for k, x in sorted(v.d, key=lambda kv: enc(kv[0]))) + ")"
    raise ValueError(v)


class Sym:
    def __init__(self, n):
        self.n = n

    def __eq__(self, o):
        return isinstance(o, Sym) and o.n == self.n

    def __hash__(self):
        return hash(("sym", self.n))


class Chr:
    def __init__(self, c):
        self.c = c

    def __eq__(self, o):
        return isinstance(o, Chr) and o.c == self.c

    def __hash__(self):
        return hash(("chr", self.c))


class Void:
    pass


class Vec:
    def __init__(self, items):
        self.items = tuple(items)

    def __eq__(self, o):
        return isinstance(o, Vec) and o.items == self.items

    def __hash__(self):
        return hash(("vec", self.items))


class MVec(Vec):
    """contents of a mutable vector (a state of the model; the engine object is rebuilt from it)"""

    def __eq__(self, o):
        return isinstance(o, MVec) and o.items == self.items

    def __hash__(self):
        return hash(("mvec", self.items))


class HM:
    def __init__(self, d):
        self.d = frozenset(dict(d).items()) if not isinstance(d, frozenset) else d

    def dict(self):
        return dict(self.d)

    def __eq__(self, o):
        return isinstance(o, HM) and o.d == self.d

    def __hash__(self):
        return hash(("hm", self.d))


class E(Exception):
    pass


def idx(i, n, allow_end=False):
    if i < 0 or i > n or (i == n and not allow_end):
        raise E()
    return i


# ---- per kind: initial states, transitions (produce same kind), observers (any value) ----
def list_ops(s):
    n = len(s)
    T = [("(cons 0 {s})", lambda: (0,) + s), ("(cons (list 1) {s})", lambda: ((1,),) + s),
         ("(cdr {s})", lambda: s[1:] if n else err()), ("(rest {s})", lambda: s[1:] if n else err()),
         ("(append {s} (list 7 8))", lambda: s + (7, 8)), ("(append (list 7) {s})", lambda: (7,) + s),
         ("(append {s} {s})", lambda: s + s), ("(reverse {s})", lambda: s[::-1]),
         ("(push-back {s} 9)", lambda: s + (9,))]
    for i in (-1, 0, 1, n - 1, n, n + 1):
        T.append(("(list-tail {s} %d)" % i, (lambda i=i: s[idx(i, n, True):])))
        T.append(("(take {s} %d)" % i, (lambda i=i: s[:i] if i >= 0 else err())))
        T.append(("(drop {s} %d)" % i, (lambda i=i: s[idx(i, n, True):])))
    O = [("(length {s})", lambda: n), ("(car {s})", lambda: s[0] if n else err()), ("(first {s})", lambda: s[0] if n else err()),
         ("(last {s})", lambda: s[-1] if n else err()), ("(null? {s})", lambda: n == 0), ("(empty? {s})", lambda: n == 0),
         ("(member 7 {s})", lambda: (s[s.index(7):] if 7 in s else False)),
         ("(member (list 1) {s})", lambda: (s[s.index((1,)):] if (1,) in s else False)),
         ("(list->vector {s})", lambda: Vec(s)), ("(equal? {s} %s)" % "{s}", lambda: True)]
    for i in (-1, 0, n - 1, n, n + 1):
        O.append(("(list-ref {s} %d)" % i, (lambda i=i: s[idx(i, n)])))
    return T, O


def err():
    raise E()


def vec_ops(s):
    v = s.items
    n = len(v)
    T = [("(immutable-vector-push {s} 4)", lambda: Vec(v + (4,))),
         ("(immutable-vector-rest {s})", lambda: Vec(v[1:])),
         ("(list->vector (vector->list {s}))", lambda: Vec(v)),
         ("(list->vector (reverse (vector->list {s})))", lambda: Vec(v[::-1]))]
    for i in (-1, 0, n - 1, n, n + 1):
        T.append(("(immutable-vector-set {s} %d 9)" % i, (lambda i=i: Vec(v[:idx(i, n)] + (9,) + v[i + 1:]))))
        # beyond the length: clamping (like take on lists) or an error are both accepted
        T.append(("(immutable-vector-take {s} %d)" % i, (lambda i=i: Vec(v[:idx(i, n, True)]) if i <= n else err_unspec())))
        T.append(("(immutable-vector-drop {s} %d)" % i, (lambda i=i: Vec(v[idx(i, n, True):]) if i <= n else err_unspec())))
    O = [("(vector-length {s})", lambda: n), ("(vector->list {s})", lambda: v)]
    for i in (-1, 0, n - 1, n, n + 1):
        O.append(("(vector-ref {s} %d)" % i, (lambda i=i: v[idx(i, n)])))
    return T, O

SRC = (10, 20, 30, 40, 50)


def mvec_ops(s):
    """mutable vectors: every transition rebuilds the vector (m), mutates it and returns it"""
    v = s.items
    n = len(v)
    W = "(let ((m {s}) (src (vector 10 20 30 40 50))) %s m)"
    T = [(W % "(vector-fill! m 7)", lambda: MVec((7,) * n)), (W % "(vector-push! m 4)", lambda: MVec(v + (4,))),
         ("(let ((m {s})) (vector-append m (vector 8)))", lambda: MVec(v + (8,))), ("(let ((m {s})) (vector-copy m))", lambda: MVec(v)),
         ("(list->vector (reverse (vector->list {s})))", lambda: Vec(v[::-1]) if False else err_unspec())]
    for i in (-1, 0, n - 1, n, n + 1):
        T.append((W % ("(vector-set! m %d 9)" % i), (lambda i=i: MVec(v[:idx(i, n)] + (9,) + v[i + 1:]))))
    for a, b in ((0, 0), (0, 1), (1, 2), (0, n), (1, n), (n, n)):
        if 0 <= a <= b <= n:
            T.append((W % ("(vector-fill! m 0 %d %d)" % (a, b)), (lambda a=a, b=b: MVec(v[:a] + (0,) * (b - a) + v[b:]))))
            T.append(("(let ((m {s})) (vector-copy m %d %d))" % (a, b), (lambda a=a, b=b: MVec(v[a:b]))))
    # vector-copy! from another vector: every (at, start, end) with the copied range inside the source and the target
    for at in range(0, n + 1):
        for st in range(0, 6):
            for en in range(st, 6):
                if at + (en - st) <= n and (en - st) <= 3 and (st, en) in ((0, 0), (0, 1), (0, 2), (1, 1), (1, 3), (2, 4), (2, 5), (3, 4), (4, 5), (0, 3), (5, 5)):
                    T.append((W % ("(vector-copy! m %d src %d %d)" % (at, st, en)), (lambda at=at, st=st, en=en: MVec(v[:at] + SRC[st:en] + v[at + en - st:]))))
    # overlapping copies inside one vector (as if through a temporary)
    for at, st, en in ((1, 0, 2), (0, 1, 3), (0, 0, n), (1, 1, 2), (2, 0, 1)):
        if 0 <= st <= en <= n and at + (en - st) <= n and at >= 0:
            T.append(("(let ((m {s})) (vector-copy! m %d m %d %d) m)" % (at, st, en), (lambda at=at, st=st, en=en: MVec(v[:at] + v[st:en] + v[at + en - st:]))))
    if n >= 2:
        T.append((W % "(vector-swap! m 0 1)", lambda: MVec((v[1], v[0]) + v[2:])))
    O = [("(vector-length {s})", lambda: n), ("(vector->list {s})", lambda: v), ("(mutable-vector->list {s})", lambda: v), ("(vector? {s})", lambda: True)]
    for i in (-1, 0, n - 1, n, n + 1):
        O.append(("(vector-ref {s} %d)" % i, (lambda i=i: v[idx(i, n)])))
    for a, b in ((0, 0), (0, 1), (1, 2), (0, n), (1, n)):
        if 0 <= a <= b <= n:
            O.append(("(vector->list {s} %d %d)" % (a, b), (lambda a=a, b=b: v[a:b])))
    return [t for t in T if "reverse" not in t[0]], O


KEYS = [1, 2, (1,), "k"]


def hash_ops(s):
    d = s.dict()
    T, O = [], []
    for k in KEYS:
        kl = lit(k)
        T.append(("(hash-insert {s} %s 'z)" % kl, (lambda k=k: HM({**d, k: Sym("z")}))))
        T.append(("(hash-insert {s} %s 0)" % kl, (lambda k=k: HM({**d, k: 0}))))
        T.append(("(hash-remove {s} %s)" % kl, (lambda k=k: HM({a: b for a, b in d.items() if a != k}))))
        O.append(("(hash-ref {s} %s)" % kl, (lambda k=k: d[k] if k in d else err())))
        O.append(("(hash-try-get {s} %s)" % kl, (lambda k=k: d.get(k, False))))
        O.append(("(hash-contains? {s} %s)" % kl, (lambda k=k: k in d)))
    T.append(("(hash-union {s} (hash 2 'u 3 'w))", lambda: HM({2: Sym("u"), 3: Sym("w"), **d})))
    T.append(("(hash-union (hash 2 'u 3 'w) {s})", lambda: HM({**d, 2: Sym("u"), 3: Sym("w")})))
    T.append(("(hash-union {s} {s})", lambda: HM(d)))
    T.append(("(hash-clear {s})", lambda: HM({})))
    O.append(("(hash-length {s})", lambda: len(d)))
    O.append(("(hash-empty? {s})", lambda: len(d) == 0))
    O.append(("(list->hashset (hash-keys->list {s}))", lambda: frozenset(d.keys())))
    O.append(("(length (hash-values->list {s}))", lambda: len(d)))
    O.append(("(equal? {s} (hash-insert (hash-remove {s} 1) 1 (if (hash-contains? {s} 1) (hash-ref {s} 1) 0)))",
              lambda: 1 in d))
    return T, O


def set_ops(s):
    T, O = [], []
    for k in KEYS:
        kl = lit(k)
        T.append(("(hashset-insert {s} %s)" % kl, (lambda k=k: s | {k})))
        O.append(("(hashset-contains? {s} %s)" % kl, (lambda k=k: k in s)))
    T.append(("(hashset-union {s} (hashset 2 3))", lambda: s | {2, 3}))
    T.append(("(hashset-intersection {s} (hashset 1 2 3))", lambda: s & {1, 2, 3}))
    T.append(("(hashset-difference {s} (hashset 1 5))", lambda: s ^ {1, 5}))  # documented as the symmetric difference
    T.append(("(hashset-clear {s})", lambda: frozenset()))
    T.append(("(list->hashset (hashset->list {s}))", lambda: s))
    O.append(("(hashset-length {s})", lambda: len(s)))
    O.append(("(hashset-subset? {s} (hashset 1 2 (list 1) \"k\" 3))", lambda: True if s <= {1, 2, (1,), "k", 3} else False))
    O.append(("(hashset-subset? (hashset 1) {s})", lambda: 1 in s))
    O.append(("(length (hashset->list {s}))", lambda: len(s)))
    O.append(("(equal? {s} (list->hashset (reverse (hashset->list {s}))))", lambda: True))
    return T, O


def str_ops(s):
    n = len(s)
    T = [("(string-append {s} \"d\")", lambda: s + "d"), ("(string-append \"λ\" {s})", lambda: "λ" + s),
         ("(string-append {s} {s})", lambda: s + s), ("(string-upcase {s})", lambda: s.upper()),
         ("(list->string (reverse (string->list {s})))", lambda: s[::-1]), ("(list->string (string->list {s}))", lambda: s)]
    for i in (-1, 0, 1, n - 1, n, n + 1):
        T.append(("(substring {s} %d)" % i, (lambda i=i: s[idx(i, n, True):])))
        T.append(("(substring {s} 0 %d)" % i, (lambda i=i: s[:idx(i, n, True)])))
        T.append(("(substring {s} %d %d)" % (i, n), (lambda i=i: s[idx(i, n, True):])))
    O = [("(string-length {s})", lambda: n), ("(string->list {s})", lambda: tuple(Chr(c) for c in s)),
         ("(string=? {s} {s})", lambda: True), ("(equal? {s} (string-append {s} \"\"))", lambda: True),
         ("(string-contains? {s} \"d\")", lambda: "d" in s), ("(string->symbol {s})", lambda: Sym(s) if s else err_unspec())]
    for i in (-1, 0, n - 1, n, n + 1):
        O.append(("(string-ref {s} %d)" % i, (lambda i=i: Chr(s[idx(i, n)]))))
    return T, O


class Unspec(Exception):
    pass


def err_unspec():
    raise Unspec()


KINDS = {
    "list": ([(), (1, 2, 3)], list_ops),
    "ivec": ([Vec(()), Vec((1, 2, 3))], vec_ops),
    "hash": ([HM({}), HM({1: Sym("a"), 2: Sym("b")})], hash_ops),
    "hset": ([frozenset(), frozenset([1, 2])], set_ops),
    "str": (["", "abc", "λx"], str_ops),
    "mvec": ([MVec(()), MVec((1, 2, 3))], mvec_ops),
}
MUTABLE_KINDS = {"mvec"}


def expected(fn):
    try:
        return enc(fn())
    except E:
        return ERR
    except (IndexError, KeyError):
        return ERR
    except Unspec:
        return None


def work(lst):
    """lst of (id, code, want) -> failures"""
    cases = [{"id": i, "steps": [code]} for i, code, want in lst]
    res = common.run_cases(cases, batch=40, timeout_ms=20000)
    fails = []
    for i, code, want in lst:
        r = res[i]
        if r["exit"] != "normal" or not r["steps"]:
            got = "CRASH(%s)" % r["exit"]
        else:
            st = r["steps"][0]
            got = st["v"][-1] if st["s"] == "ok" else ("ERR" if st["s"] == "err" else "PANIC")
        if got.startswith("CRASH(signal"):
            got = "PANIC"
        if want is None:
            if got in ("PANIC",) or got.startswith("CRASH"):
                fails.append((code, "OK-or-ERR", got))
            continue
        if got != want:
            fails.append((code, want, got))
    return fails


def run(tier, rep):
    depth = 4 if tier == "thorough" else 3
    max_len = 7
    stats = {"states": 0, "transitions": 0, "per_kind": {}, "samples": []}
    todo = []
    tid = 0
    meta = {}
    for kind, (inits, opsf) in KINDS.items():
        seen = {}
        frontier = []
        for s in inits:
            seen[s] = lit(s)
            frontier.append(s)
        ntr = 0
        for d in range(depth):
            nxt = []
            for s in frontier:
                T, O = opsf(s)
                sx = seen[s]
                for tmpl, fn in T + O:
                    code = tmpl.replace("{s}", sx)
                    want = expected(fn)
                    todo.append((tid, code, want))
                    meta[tid] = (kind, tmpl)
                    tid += 1
                    ntr += 1
                for tmpl, fn in (T if kind not in MUTABLE_KINDS else []):
                    # the same operation on an operand that is still referenced afterwards (not uniquely owned):
                    # same result, and the operand is unchanged
                    want = expected(fn)
                    if want is None or want == ERR:
                        continue
                    code = "(let ((s %s)) (let ((r %s)) (list r s)))" % (sx, tmpl.replace("{s}", "s"))
                    todo.append((tid, code, "(lst %s %s)" % (want, enc(s))))
                    meta[tid] = (kind, tmpl)
                    tid += 1
                    ntr += 1
                for tmpl, fn in T:
                    try:
                        ns = fn()
                    except (E, IndexError, KeyError, Unspec):
                        continue
                    size = len(ns.items) if isinstance(ns, Vec) else (len(ns.d) if isinstance(ns, HM) else len(ns))
                    if ns not in seen and size <= max_len and d + 1 < depth:
                        seen[ns] = tmpl.replace("{s}", sx)
                        nxt.append(ns)
            frontier = nxt
        stats["per_kind"][kind] = {"states": len(seen), "transitions": ntr}
        stats["states"] += len(seen)
        stats["transitions"] += ntr
    stats["samples"] = [todo[len(todo) // 3][1], todo[-1][1]]
    allf = []
    for fs in common.pmap(work, common.chunks(todo, 600)):
        allf += fs
    # minimal: shortest code per (operation template, want-class, got-class)
    allf.sort(key=lambda f: (len(f[0]), f[0]))
    seen_sig = set()
    for code, want, got in allf:
        head = code.split(" ")[0]
        cls = (head, "ERR" if want == ERR else "VAL", got if got in ("ERR", "PANIC") else "VAL")
        if cls in seen_sig:
            continue
        seen_sig.add(cls)
        rep.violation("coll %s want=%s got=%s" % (code, want, got), {"code": code, "want": want, "got": got},
                      {"kind": "coll", "code": code, "want": want})
    return stats


def replay(rp):
    f = work([(0, rp["code"], rp["want"])])
    print("now:", f)
    return 1 if f else 0
