"""C01 – compiled execution agrees with the reference semantics (vp/ref_scheme.py).
Enumerated: (a) every closed core term up to a size; (b) every small term in every compiler position context; (c) skeleton
families (call-site x parameter shapes, counters, shadowing / specialised names, dead code, let depth x arguments under tail
calls, begin/define interleavings, inlinable functions, higher-order procedures, data)."""
import sys, json, os, re
from . import common, progs, ref_scheme

P = "C01"
MODDIR = os.path.join(common.VERIF, ".work", "c01mods")

_base = None


def ref_eval(steps, order):
    global _base
    if _base is None:
        _base = ref_scheme.Interp(order="lr", budget=60000)
        _base._g0 = dict(_base.globals)
    I = _base
    I.order = order
    I.globals = dict(I._g0)
    out = []
    for s in steps:
        I.out = []
        try:
            r = I.run_text(s)
        except (ref_scheme.Budget, RecursionError):
            return None
        text = "".join(I.out)
        if I.free_seen and (not I.free_evaluated or r[0] == "ok"):
            return None  # a free identifier that is never evaluated, or whose run-time error is handled: whether the unit is
            #              rejected at compile time is not pinned down
        if I.free_seen:
            text = None  # the implementation may reject the unit before running any of it
        if r[0] == "ok":
            last = r[1][-1] if r[1] else ref_scheme.VOID
            out.append(("ok", ref_scheme.enc(last), text))
        else:
            out.append(("err", None, text if not r[1].startswith("compile") else None))
    return out


def terminates(steps):
    """reference evaluation finishes within the step budget (the properties quantify over terminating programs)"""
    global _base
    if _base is None:
        ref_eval(["1"], "lr")
    I = _base
    I.order = "lr"
    I.globals = dict(I._g0)
    steps = demodule(steps)[0]
    for s in steps:
        I.out = []
        try:
            I.run_text(s)
        except (ref_scheme.Budget, RecursionError):
            return False
        except Exception:
            return True
    return True


MODRE = re.compile(r"^\(%module \(provide ([^)]*)\) (.*)\)$", re.S)


def demodule(steps):
    """a module-placement program as the reference sees it: the module's definitions evaluated first, in one unit"""
    m = MODRE.match(steps[0]) if steps else None
    if m:
        return [m.group(2)] + list(steps[1:]), True
    return steps, False


def mat(steps):
    """what is sent to the engine: the pseudo-form (%module (provide names) defs...) becomes a file module and a require of it"""
    m = MODRE.match(steps[0]) if steps and isinstance(steps[0], str) else None
    if not m:
        return steps
    body = "(provide %s)\n%s\n" % (m.group(1), m.group(2))
    os.makedirs(MODDIR, exist_ok=True)
    path = os.path.join(MODDIR, common.sha(body) + ".scm")
    if not os.path.exists(path):
        tmp = path + ".%d" % os.getpid()
        with open(tmp, "w") as fh:
            fh.write(body)
        os.replace(tmp, path)
    return ['(require "%s")' % path] + list(steps[1:])


def reference(steps):
    steps, is_mod = demodule(steps)
    r = reference0(steps)
    if r is not None and is_mod:
        r = [(r[0][0], None, r[0][2])] + r[1:]  # the value of a require form is not pinned down
    return r


def reference0(steps):
    """-> list of (status, value-or-None(unspecified), stdout-or-None) or None when the program is outside the reference
    (non-terminating within the budget, or order-sensitive in a way the documentation does not pin down)"""
    a = ref_eval(steps, "lr")
    if a is None:
        return None
    b = ref_eval(steps, "rl")
    c = ref_eval(steps, "rot")
    if b is None or c is None:
        return None
    out = []
    for x, y, z in zip(a, b, c):
        if x != y or x != z:
            return None  # order-sensitive: Unspecified for C01
        st, v, text = x
        if v is not None and "(unspec)" in v:
            v = None
        if text is not None and "<?>" in text:
            text = None
        out.append((st, v, text))
    return out


def observe(r, nsteps):
    if r["exit"] != "normal":
        return [("crash:" + r["exit"], None, "")] * nsteps
    out = []
    for st in r["steps"]:
        if st["s"] == "ok":
            out.append(("ok", (st["v"] or ["(void)"])[-1].replace("(bigrat ", "(rat "), st["out"]))
        elif st["s"] == "err":
            out.append(("err", None, st["out"]))
        else:
            out.append(("panic", None, st.get("out", "")))
    while len(out) < nsteps:
        out.append(("missing", None, ""))
    return out


def compare(ref, obs):
    """-> None or description of the first disagreement"""
    for i, (r, o) in enumerate(zip(ref, obs)):
        if r[0] != o[0]:
            return "step %d: status want %s got %s" % (i, r[0], o[0])
        if r[0] == "ok" and r[1] is not None and r[1] != o[1]:
            return "step %d: value want %s got %s" % (i, r[1], o[1])
        if r[2] is not None and r[2] != o[2]:
            return "step %d: output want %r got %r" % (i, r[2], o[2])
        if r[0] == "err":
            break  # after a failing unit only earlier steps are pinned down by this reference run
    return None


def work(item):
    env, lst = item
    refs = {}
    cases = []
    skipped = 0
    nontriv = 0
    for i, steps in lst:
        rf = reference(steps)
        if rf is None:
            skipped += 1
            continue
        refs[i] = rf
        if any(k in " ".join(steps) for k in ("lambda", "define", "set!", "apply", "error", "let")):
            nontriv += 1
        cases.append({"id": i, "steps": mat(steps)})
    # programs that define globals run in a child of their own (they may redefine built-ins); pure expressions are batched
    iso = [c for c in cases if any(("(define" in s or "(require" in s) for s in c["steps"])]
    bat = [c for c in cases if not any(("(define" in s or "(require" in s) for s in c["steps"])]
    res = common.run_cases(bat, env=env, batch=25, timeout_ms=20000)
    res.update(common.run_cases(iso, env=env, batch=1, timeout_ms=20000))
    fails = []
    outcomes = {}
    for i, steps in lst:
        if i not in refs:
            continue
        obs = observe(res[i], len(steps))
        d = compare(refs[i], obs)
        if d is not None:
            # confirm in a child of its own before reporting
            r2 = common.run_cases([{"id": 0, "steps": mat(steps)}], env=env, batch=1, timeout_ms=20000)[0]
            obs2 = observe(r2, len(steps))
            d2 = compare(refs[i], obs2)
            if d2 is None:
                d = "only after the batch prefix: " + d
            else:
                d, obs = d2, obs2
            fails.append((steps, d, refs[i], obs))
        k = refs[i][-1][0]
        outcomes[k] = outcomes.get(k, 0) + 1
    return len(lst), skipped, nontriv, fails, outcomes


def wellformed(steps):
    """shrinking must not leave the program class: a module pseudo-form provides identifiers that its body defines, and appears first only"""
    for i, st in enumerate(steps):
        if ("provide" in st or "require" in st) and not MODRE.match(st):
            return False  # module forms outside the pseudo-form are not part of the reference
        if "%module" in st:
            m = MODRE.match(st)
            if i != 0 or not m:
                return False
            names = m.group(1).split()
            if not names or any(not re.match(r"^[a-z][a-z0-9?!*-]*$", n) or ("(define (%s " % n) not in m.group(2) + " " and ("(define (%s)" % n) not in m.group(2) for n in names):
                return False
    return True


def still_fails(steps, env, cls):
    if not wellformed(steps):
        return False
    rf = reference(steps)
    if rf is None:
        return False
    r = common.run_cases([{"id": 0, "steps": mat(steps)}], env=env, batch=1, timeout_ms=20000)[0]
    d = compare(rf, observe(r, len(steps)))
    return d is not None and classify(d) == cls


def classify(d):
    """failure class: kind of disagreement without step numbers and concrete values (crash:signal:6 -> crash)"""
    import re
    d = re.sub(r"^only after the batch prefix: ", "", d)
    d = re.sub(r"step \d+: ", "", d)
    if d.startswith("status"):
        return re.sub(r"(crash|panic|missing)\S*", lambda m: m.group(1), d)
    return d.split(" want")[0]


def shrink_fail(f):
    from .shrink import shrink
    steps, d, rf, obs, env = f
    cls = classify(d)
    SEP = " ;;STEP;; "
    text = SEP.join(steps)

    def fails(t):
        st = [s for s in t.split(";;STEP;;")]
        st = [s.strip() for s in st if s.strip()]
        if not st:
            return False
        try:
            return still_fails(st, env, cls)
        except Exception:
            return False
    # shrink each step's text; steps are separated by a marker atom the shrinker keeps as an atom
    m = shrink(text.replace(SEP, " STEPSEP "), lambda t: fails(t.replace("STEPSEP", ";;STEP;;")), atoms=("1", "#f", "x"), max_calls=1200)
    st = [s.strip() for s in m.split("STEPSEP") if s.strip()]
    return (st, cls, f)


def program_set(tier):
    thorough = tier == "thorough"
    fam = []
    fam.append(("size", progs.size_family(5 if thorough else 4)))
    fam.append(("context", progs.context_family(3 if thorough else 2, depth=2 if thorough else 1)))
    fam.append(("skeleton", progs.skeletons(tier)))
    fam.append(("jit", progs.jit_family()))
    fam.append(("history", progs.history_family()))
    fam.append(("operand-count", progs.wide_family()))
    # the same multi-step programs as ONE compilation unit (whole-unit analyses: constant propagation, inlining, set! detection)
    import re
    joined = []
    for name, ps in fam:
        if name in ("skeleton", "history", "operand-count"):
            for steps in ps:
                if len(steps) < 2:
                    continue
                defs = re.findall(r"\(define \(?([^\s()]+)", " ".join(steps))
                if len(defs) != len(set(defs)):
                    continue
                joined.append([" ".join(steps)])
    fam.append(("single-unit", joined))
    # the same programs with their definitions placed in a FILE MODULE that the program requires: module code is compiled differently
    # (built-ins resolve to primitives and become arithmetic instructions of any operand count, calls between module functions drop
    # the arity check, self tail calls become native loops)
    fam.append(("module-placement", module_variants(fam)))
    return fam


def module_variants(fam):
    """programs whose leading steps are all (define (name ...) ...) of distinct names and whose remaining steps neither define nor
    assign: the definitions go to <MODDIR>/<hash>.scm with a provide of every name, the program becomes (require file) + rest"""
    out, seen = [], set()
    for name, ps in fam:
        if name not in ("skeleton", "jit", "operand-count"):
            continue
        for steps in ps:
            k = 0
            names = []
            while k < len(steps):
                m = re.match(r"^\(define \(([^\s()]+)[^()]*\) .*\)$", steps[k]) or re.match(r"^\(define \(([^\s()]+) \. [^\s()]+\) .*\)$", steps[k])
                if not m:
                    break
                names.append(m.group(1))
                k += 1
            rest = steps[k:]
            if not names or not rest or len(set(names)) != len(names):
                continue
            if any(("(define" in r or "set!" in r) for r in rest) or any("set!" in d for d in steps[:k]):
                continue
            if any(n in progs.SPECIALISED for n in names):
                continue
            first = "(%%module (provide %s) %s)" % (" ".join(names), " ".join(steps[:k]))
            key = (first, tuple(rest))
            if key in seen:
                continue
            seen.add(key)
            out.append([first] + list(rest))
    return out


def run_all(tier, env, rep, prop, env_label=None):
    fam = program_set(tier)
    allp = []
    for name, ps in fam:
        allp += ps
    items = [(env, ch) for ch in common.chunks(list(enumerate(allp)), 600)]
    results = common.pmap(work, items)
    n = sum(r[0] for r in results)
    skipped = sum(r[1] for r in results)
    nontriv = sum(r[2] for r in results)
    outcomes = {}
    fails = []
    for r in results:
        for k, v in r[4].items():
            outcomes[k] = outcomes.get(k, 0) + v
        fails += [f + (env,) for f in r[3]]
    fails.sort(key=lambda f: (sum(len(s) for s in f[0]), f[0]))
    # one representative per (failure class, program shape with literals abstracted) is minimised
    import re
    reps, keys = [], set()
    for f in fails:
        shape = re.sub(r"-?\d+(/\d+)?(\.\d+)?|\"[^\"]*\"|#[tf]|'\(\)", "_", " | ".join(f[0]))
        k = (classify(f[1]), shape)
        if k not in keys:
            keys.add(k)
            reps.append(f)
    shr = common.pmap(shrink_fail, reps[:400])
    seen = set()
    for st, cls, f in shr:
        sig = "%s :: %s" % (" | ".join(st), cls)
        if sig in seen:
            continue
        seen.add(sig)
        rep.violation(sig, {"minimal": st, "found_as": f[0], "disagreement": f[1], "reference": f[2], "observed": f[3], "env": env},
                      {"case": {"steps": st}, "env": env, "expected": f[2], "observed": f[3]})
    return {"programs": n, "skipped_unspecified": skipped, "nontrivial": nontriv, "outcomes": outcomes, "raw_failures": len(fails), "failure_shapes_minimised": len(reps),
            "families": {name: len(ps) for name, ps in fam}, "samples": [allp[len(allp) // 7 * k] for k in range(1, 6)],
            "hash": common.sha(json.dumps(allp))}


def main(argv=None):
    a = common.parse_args(argv)
    if a.replay:
        r = json.load(open(a.replay))
        print(json.dumps(r, indent=1, ensure_ascii=False)[:3000])
        common.build()
        rp = r["replay"]
        steps = rp["case"]["steps"]
        rf = reference(steps)
        r2 = common.run_cases([{"id": 0, "steps": mat(steps)}], env=rp.get("env"), batch=1, timeout_ms=20000)[0]
        obs = observe(r2, len(steps))
        print("reference:", rf)
        print("observed: ", obs)
        d = compare(rf, obs) if rf else None
        print("disagreement:", d)
        return 1 if d else 0
    common.build()
    rep = common.Reporter(P, a.tier)
    st = run_all(a.tier, None, rep, P)
    cov = {"evaluations": st["programs"], "distinct_nontrivial": st["nontrivial"],
           "rule": "every program of the enumerated families (all closed core terms up to a size; every small term in every compiler position "
                   "context; skeleton families with enumerated holes) is evaluated by the real engine (default configuration) step by step and "
                   "compared with the reference evaluator on status, last value and output of every step; programs whose reference outcome "
                   "depends on operand evaluation order, exceeds the step budget or involves an unspecified value are counted as "
                   "skipped_unspecified and not compared; non-trivial = compared programs containing a lambda/define/set!/apply/let/error",
           "samples": st["samples"], "exhaustive": True, "families": st["families"], "skipped_unspecified": st["skipped_unspecified"],
           "reference_outcomes_of_last_step": st["outcomes"], "raw_failures_before_minimisation": st["raw_failures"],
           "enumeration_hash": st["hash"]}
    return rep.finish("exploration", cov, assumptions=[
        "reference: vp/ref_scheme.py (CEK evaluator written from R7RS + Steel's documented deviations)",
        "operand evaluation order, the value of set!, printed form of non-atoms are unspecified and never compared"])


if __name__ == "__main__":
    sys.exit(main())
