"""debug tool: python3 -m vp.ev [-e KEY=VAL] 'code' ['code' ...] – run steps on a fresh engine, print results"""
import sys, json
from . import common
def main():
    a = sys.argv[1:]; env = {}
    while a and a[0] == "-e":
        k, v = a[1].split("=", 1); env[k] = v; a = a[2:]
    common.build()
    r = common.run_cases([{"id": 0, "steps": a}], env=env or None, batch=1)
    o = r[0]
    print("exit:", o["exit"])
    for s, st in zip(a, o["steps"]):
        print(">", s); print("  ", json.dumps(st, ensure_ascii=False))
main()
