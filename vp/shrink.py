"""Structural shrinking of s-expression texts: smallest-first candidates, accepted only when the
caller's oracle says the candidate still fails in the same failure class."""
import re

_TOK = re.compile(r"""\s+|;[^\n]*|(,@|#\(|#u8\(|[()\[\]'`,])|("(?:\\.|[^"\\])*")|(#\\(?:[a-zA-Z0-9]+|.))|([^\s()\[\]"';`,]+)""", re.S)


class Pre(tuple):
    """prefix form: (prefix-token, datum)"""
    pass


def parse(text):
    """text -> list of top-level forms; a form is str (atom), list (with .open attr via tuple), or Pre"""
    pos = 0
    stack = [[]]
    opens = []
    pending = []  # prefix markers waiting for a datum: list per depth

    def push(d):
        # attach prefixes
        while pending and pending[-1][0] == len(stack):
            _, pfx = pending.pop()
            d = Pre((pfx, d))
        stack[-1].append(d)

    while pos < len(text):
        m = _TOK.match(text, pos)
        if not m:
            # unknown char: treat as atom
            push(text[pos])
            pos += 1
            continue
        pos = m.end()
        punct, s, ch, atom = m.groups()
        if punct:
            if punct in ("(", "[", "#(", "#u8("):
                opens.append(punct)
                stack.append([])
            elif punct in (")", "]"):
                if len(stack) == 1:
                    continue
                items = stack.pop()
                o = opens.pop()
                push(("L", o, items))
            else:
                pending.append((len(stack), punct))
        elif s is not None:
            push(s)
        elif ch is not None:
            push(ch)
        elif atom is not None:
            push(atom)
    while len(stack) > 1:
        items = stack.pop()
        o = opens.pop()
        stack[-1].append(("L", o, items))
    return stack[0]


def unparse(d):
    if isinstance(d, Pre):
        return d[0] + unparse(d[1])
    if isinstance(d, tuple) and d and d[0] == "L":
        close = "]" if d[1] == "[" else ")"
        return d[1] + " ".join(unparse(x) for x in d[2]) + close
    return d


def unparse_top(forms):
    return " ".join(unparse(f) for f in forms)


def size(d):
    if isinstance(d, Pre):
        return 1 + size(d[1])
    if isinstance(d, tuple) and d and d[0] == "L":
        return 1 + sum(size(x) for x in d[2])
    return 1


def _children(d):
    if isinstance(d, Pre):
        return [d[1]]
    if isinstance(d, tuple) and d and d[0] == "L":
        return list(d[2])
    return []


def _paths(d, pre=()):
    yield pre
    for i, c in enumerate(_children(d)):
        yield from _paths(c, pre + (i,))


def _get(d, path):
    for i in path:
        d = _children(d)[i]
    return d


def _replace(d, path, new):
    if not path:
        return new
    i = path[0]
    if isinstance(d, Pre):
        return Pre((d[0], _replace(d[1], path[1:], new)))
    items = list(d[2])
    if new is None and len(path) == 1:
        del items[i]
    else:
        items[i] = _replace(items[i], path[1:], new)
    return ("L", d[1], items)


def shrink(text, fails, atoms=("1", "x", "#t", "'()"), max_calls=400):
    """fails(text) -> bool. Returns the fixpoint text (still failing)."""
    top = ("L", "(", parse(text))  # virtual root over the top-level forms

    def render(t):
        return unparse_top(t[2])

    calls = [0]

    def still_fails(t):
        calls[0] += 1
        return fails(render(t))

    changed = True
    while changed and calls[0] < max_calls:
        changed = False
        paths = sorted(_paths(top), key=lambda p: (len(p), p))
        for p in paths:
            if not p:
                continue
            node = _get(top, p)
            cands = []
            # delete the node from its parent list
            parent = _get(top, p[:-1])
            if isinstance(parent, tuple) and not isinstance(parent, Pre):
                cands.append(None)
            for a in atoms:
                if node != a:
                    cands.append(a)
            for c in _children(node):
                cands.append(c)
                # peel a thunk: (f ... (lambda () B) ...) -> B
                cc = _children(c)
                if isinstance(c, tuple) and not isinstance(c, Pre) and len(cc) >= 3 and cc[0] in ("lambda", "λ"):
                    cands.append(cc[-1])
            cur = size(top)
            for c in cands:
                t2 = _replace(top, p, c)
                if size(t2) >= cur and not (size(t2) == cur and isinstance(c, str) and isinstance(node, str)
                                            and c in atoms and (node not in atoms or atoms.index(c) < atoms.index(node))):
                    continue
                if render(t2) == render(top):
                    continue
                if still_fails(t2):
                    top = t2
                    changed = True
                    break
                if calls[0] >= max_calls:
                    break
            if changed or calls[0] >= max_calls:
                break
    return render(top)
