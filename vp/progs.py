"""Program enumerators shared by C01 / C02 (and reused elsewhere).
A program is a list of steps (each step = one Engine::run call = one compilation unit); the observation is the
(status, last value, stdout) of every step."""
import itertools

CONSTS = ["0", "1", "#f", "'()", "'#f"]

_memo = {}


def terms(size, nv):
    """all closed-over-nv-variables core terms of exactly `size` nodes, canonical variable names v0..v{nv-1}"""
    key = (size, nv)
    if key in _memo:
        return _memo[key]
    out = []
    if size == 1:
        out = CONSTS + ["v%d" % i for i in range(nv)]
    else:
        s = size - 1
        v = "v%d" % nv
        w = "v%d" % (nv + 1)
        # one child
        for x in terms(s, nv):
            out += ["(car %s)" % x, "(cdr %s)" % x, "(null? %s)" % x, "(list %s)" % x, "(begin (display 7) %s)" % x]
            for i in range(nv):
                out.append("(begin (set! v%d %s) v%d)" % (i, x, i))
            out.append("(%s)" % x)
        for x in terms(s, nv + 1):
            out.append("(lambda (%s) %s)" % (v, x))
            out.append("(lambda %s %s)" % (v, x))
        if s >= 1:
            for x in terms(s, nv + 2):
                out.append("(lambda (%s . %s) %s)" % (v, w, x))
        # two children
        for a in range(1, s):
            b = s - a
            for x in terms(a, nv):
                for y in terms(b, nv):
                    out += ["(cons %s %s)" % (x, y), "(+ %s %s)" % (x, y), "(< %s %s)" % (x, y), "(begin %s %s)" % (x, y),
                            "(%s %s)" % (x, y), "(apply %s %s)" % (x, y)]
                for y in terms(b, nv + 1):
                    out.append("(let ((%s %s)) %s)" % (v, x, y))
        # three children
        for a in range(1, s - 1):
            for b in range(1, s - a):
                c = s - a - b
                for x in terms(a, nv):
                    for y in terms(b, nv):
                        for z in terms(c, nv):
                            out.append("(if %s %s %s)" % (x, y, z))
                            out.append("(%s %s %s)" % (x, y, z))
    _memo[key] = out
    return out


def size_family(maxsize):
    out = []
    for s in range(1, maxsize + 1):
        for t in terms(s, 0):
            out.append([t])
    return out


# one-hole contexts, one per position kind the compiler distinguishes
CONTEXTS = [
    ("top", ["{T}"]),
    ("fn-tail", ["(define (main) {T})", "(main)"]),
    ("fn-arg", ["(define (id x) x)", "(define (main) (id {T}))", "(main)"]),
    ("operator", ["(define (main) ({T} 1))", "(main)"]),
    ("if-test", ["(define (main) (if {T} 'yes 'no))", "(main)"]),
    ("let-init", ["(define (main) (let ((a {T})) (list a a)))", "(main)"]),
    ("imm-lambda", ["(define (main) ((lambda (q) {T}) 5))", "(main)"]),
    ("loop-body", ["(define (main) (let loop ((i 0) (acc '())) (if (< i 2) (loop (+ i 1) (cons {T} acc)) acc)))", "(main)"]),
    ("escaping-closure", ["(define (mk) (lambda () {T}))", "((mk))"]),
    ("captured-assigned", ["(define (main) (let ((n 0)) (let ((f (lambda () (set! n (+ n 1)) {T}))) (list (f) n))))", "(main)"]),
    ("internal-define", ["(define (main) (define a {T}) (define b 2) (list a b))", "(main)"]),
    ("map-callback", ["(define (main) (map (lambda (q) {T}) (list 1 2)))", "(main)"]),
    ("handler-body", ["(define (main) (with-handler (lambda (e) 'caught) {T}))", "(main)"]),
    ("arg-after-alloc", ["(define (main) (list (list 1 2) {T} (list 3)))", "(main)"]),
]


def context_family(maxsize, depth=1):
    out = []
    ts = [t for s in range(1, maxsize + 1) for t in terms(s, 0)]
    for t in ts:
        for name, steps in CONTEXTS[1:]:
            out.append([st.replace("{T}", t) for st in steps])
    if depth >= 2:
        small = [t for s in range(1, max(2, maxsize - 1) + 1) for t in terms(s, 0)]
        inner = [("((lambda () {T}))"), "(let ((z 1)) {T})", "(if #t {T} 0)", "(begin 0 {T})", "(car (list {T}))"]
        for t in small:
            for i in inner:
                for name, steps in CONTEXTS[1:]:
                    out.append([st.replace("{T}", i.replace("{T}", t)) for st in steps])
    return out


# ---------------------------------------------------------------- skeleton families
SPECIALISED = ["car", "cdr", "cons", "list", "box", "unbox", "set-box!", "+", "-", "*", "=", "<", "<=", "not", "null?", "list-ref",
               "vector-ref", "length", "append", "add1", "sub1", "zero?", "eq?", "equal?", "first", "void"]


def skeletons(tier):
    P = []
    # --- call sites x callee parameter shapes
    callee = [("()", "'none"), ("(a)", "(list a)"), ("(a b)", "(list a b)"), ("(a . r)", "(list a r)"), ("r", "(list r)"),
              ("(a b . r)", "(list a b r)")]
    for (ps, body) in callee:
        deff = "(define (f . r) %s)" % body if ps == "r" else ("(define (f%s) %s)" % ((" " + ps[1:-1]) if ps != "()" else "", body))
        lam = "(lambda %s %s)" % (ps, body)
        for k in range(0, 5):
            args = " ".join(str(10 + i) for i in range(k))
            call = "(f %s)" % args if k else "(f)"
            P.append([deff, call])
            P.append([deff, "(define (g) %s)" % call, "(g)"])                          # tail call from another function
            P.append([deff, "(define (g) (list %s))" % call, "(g)"])                   # non-tail
            P.append([deff, "(apply f (list %s))" % args])                            # through apply
            P.append(["(let ((h %s)) (h %s))" % (lam, args)])                          # local lambda
            P.append(["(%s %s)" % (lam, args)])                                        # immediate application
            P.append([deff, "(define (g h) (h %s))" % args, "(g f)"])                   # through a parameter
            P.append([deff, "(define fs (list f))", "((car fs) %s)" % args])           # through a container
        # self tail calls with a varying number of arguments (rest list rebuilt on every iteration)
        for k in range(0, 4):
            extra = " ".join(str(20 + i) for i in range(k))
            if ps in ("(a . r)", "(a b . r)"):
                fixed = "(- a 1)" + (" b" if "b" in ps else "")
                P.append(["(define (lp %s) (if (= a 0) %s (lp %s %s)))" % (ps[1:-1], body, fixed, extra), "(lp 2%s)" % (" 5" if "b" in ps else "")])
                P.append(["(define (lp %s) (if (= a 0) %s (car (list (lp %s %s)))))" % (ps[1:-1], body, fixed, extra), "(lp 2%s)" % (" 5" if "b" in ps else "")])
            if ps == "r":
                P.append(["(define (lp . r) (if (> (length r) 3) r (lp %s 1)))" % extra, "(lp)"])
                P.append(["(define (lp . r) (if (> (length r) 2) r (apply lp (cons 0 r))))", "(lp %s)" % extra])
    # case-lambda: every clause shape x every argument count around the clause's fixed arity (rest list empty / one / two elements)
    cl_sets = [["(() (list 'none))", "((a) (list 'one a))", "((a b . rest) (list 'two+ a b rest))", "(args (list 'fallback args))"],
               ["((x . more) (list 'head x more))", "(args (list 'fallback args))"],
               ["((a b) (list 'two a b))", "((a . r) (list 'one+ a r))"],
               ["((a b c . r) (list 'three+ a b c r))", "((a . r) (list 'one+ a r))", "(() 'zero)"],
               ["(r (list 'all r))"], ["((a) a)", "((a b) (list a b))"]]
    for cls in cl_sets:
        d = "(define cl (case-lambda %s))" % " ".join(cls)
        for k in range(0, 5):
            args = " ".join(str(10 + i) for i in range(k))
            P.append([d, "(cl %s)" % args if k else "(cl)"])
            P.append([d, "(apply cl (list %s))" % args])
            P.append([d, "(define (g) (cl %s))" % args if k else "(define (g) (cl))", "(g)"])
    # a procedure that assigns to its own name (in one arm of a conditional / unconditionally) and then calls that name in tail position
    redefs = ["(if (= n 2) (set! lp (lambda (n acc) (cons 'new acc))) 1)", "(when (= n 2) (set! lp (lambda (n acc) (cons 'new acc))))",
              "(cond ((= n 2) (set! lp (lambda (n acc) (cons 'new acc)))) (else 1))", "(and (= n 2) (set! lp (lambda (n acc) (cons 'new acc))))",
              "(if (not (= n 2)) 1 (set! lp (lambda (n acc) (cons 'new acc))))", "(unless (not (= n 2)) (set! lp (lambda (n acc) (cons 'new acc))))",
              "(set! lp (lambda (n acc) (cons 'new acc)))", "(or (not (= n 2)) (set! lp (lambda (n acc) (cons 'new acc))))",
              "(let ((q (= n 2))) (if q (set! lp (lambda (n acc) (cons 'new acc))) 1))"]
    for rd in redefs:
        P.append(["(define (lp n acc) %s (if (= n 0) acc (lp (- n 1) (cons n acc))))" % rd, "(lp 3 '())"])
        P.append(["(define (lp n acc) (if (= n 0) acc (begin %s (lp (- n 1) (cons n acc)))))" % rd, "(lp 3 '())"])
        P.append(["(define (lp n acc) (if (= n 0) acc (begin %s (lp (- n 1) (cons n acc)))))" % rd, "(lp 3 '())", "(lp 3 '())"])
        P.append(["(define (lp n acc) (if (= n 0) acc (begin %s (car (list (lp (- n 1) (cons n acc)))))))" % rd, "(lp 3 '())"])
    # tail loops that carry their state in captured variables: every step builds a fresh instance of the SAME lambda (closed over the new
    # state) and tail-calls it; each instance must see its own captures (constructor = named let / passed along as a value / through map / apply)
    for n in (1, 2, 5):
        P.append(["(define (stepper) (let mk ((k 0)) (lambda (n acc) (if (= n 0) acc ((mk (+ k 1)) (- n 1) (+ acc k))))))", "((stepper) %d 0)" % n])
        P.append(["(define (stepper) (let mk ((k 0)) (lambda (n acc) (if (= n 0) (list k acc) ((mk (+ k 1)) (- n 1) (cons k acc))))))", "((stepper) %d '())" % n])
        P.append(["(define (ms mk total) (lambda (r) (if (= r 0) total ((mk mk (+ total r)) (- r 1)))))", "((ms ms 0) %d)" % n])
        P.append(["(define (ma k) (lambda (n acc) (if (= n 0) acc ((car (map ma (list (+ k 2)))) (- n 1) (+ acc k)))))", "((ma 0) %d 0)" % n])
        P.append(["(define (astep) (let mk ((k 0)) (lambda (n acc) (if (= n 0) acc (apply (mk (+ k 1)) (list (- n 1) (+ acc k)))))))", "((astep) %d 0)" % n])
        P.append(["(define (two) (let mk ((k 0) (tag 'a)) (lambda (n acc) (if (= n 0) (cons tag acc) ((mk (+ k 1) (if (eq? tag 'a) 'b 'a)) (- n 1) (cons (list tag k) acc))))))", "((two) %d '())" % n])
        P.append(["(define (mkc k) (lambda (n acc) (if (= n 0) acc ((mkc (+ k 1)) (- n 1) (+ acc k)))))", "((mkc 0) %d 0)" % n, "(define (drive) ((mkc 10) %d 0))" % n, "(drive)"])
    # mutual recursion with rest args
    P.append(["(define (ev? n . r) (if (= n 0) (list #t r) (od? (- n 1) n)))", "(define (od? n . r) (if (= n 0) (list #f r) (ev? (- n 1) n r)))", "(list (ev? 4) (ev? 3 'x) (od? 2 'y 'z))"])
    # --- counters, captured + assigned variables
    P += [
        ["(define (mk) (let ((n 0)) (lambda () (set! n (+ n 1)) n)))", "(define c1 (mk))", "(define c2 (mk))", "(list (c1) (c1) (c2) (c1))"],
        ["(define (mk) (let ((n 0)) (list (lambda () (set! n (+ n 1)) n) (lambda () n))))", "(define p (mk))", "((car p))", "((car p))", "((car (cdr p)))"],
        ["(define (mk n) (lambda (d) (set! n (+ n d)) n))", "(define a (mk 10))", "(list (a 1) (a 2) (a 3))"],
        ["(define (f x) (let ((g (lambda () (set! x (+ x 1))))) (g) (g) x))", "(f 5)"],
        ["(define (f x) (define (g) (set! x (* x 2))) (g) (let ((y x)) (g) (list x y)))", "(f 3)"],
        ["(define fs (map (lambda (i) (lambda () i)) (list 1 2 3)))", "(map (lambda (f) (f)) fs)"],
        ["(define (f) (let loop ((i 0) (acc '())) (if (< i 3) (loop (+ i 1) (cons (lambda () i) acc)) (map (lambda (g) (g)) acc))))", "(f)"],
        ["(define x 1)", "(define (getx) x)", "(set! x 2)", "(getx)", "(define (setx! v) (set! x v))", "(setx! 9)", "(list x (getx))"],
        ["(define (f a) (set! a (+ a 1)) (let ((b a)) (set! a (+ a 1)) (list a b)))", "(f 1)"],
        ["(define (f) (let ((a 1) (b 2)) (let ((t a)) (set! a b) (set! b t) (list a b))))", "(f)"],
        ["(define (f n) (let ((acc '())) (let loop ((i 0)) (when (< i n) (set! acc (cons i acc)) (loop (+ i 1)))) acc))", "(f 3)"],
    ]
    # --- shadowing chains and specialised names
    P += [
        ["(define x 1)", "(define (f x) (let ((x (+ x 1))) ((lambda (x) (list x)) (+ x 1))))", "(list (f 10) x)"],
        ["(define x 'g)", "(define (f) (let ((x 'a)) (let ((y x)) (let ((x 'b)) (list x y)))))", "(list (f) x)"],
        ["(define (f x) (define x2 (+ x 1)) (define (x3) (+ x2 1)) (let ((x (x3))) x))", "(f 1)"],
        ["(define (f a) (let ((a (+ a 1)) (b a)) (list a b)))", "(f 1)"],
        ["(define (f a) (let* ((a (+ a 1)) (b a)) (list a b)))", "(f 1)"],
        ["(define (f) (letrec ((a (lambda () (b))) (b (lambda () 3))) (a)))", "(f)"],
    ]
    for n in SPECIALISED:
        mine = "(lambda args (cons 'mine args))"
        P.append(["((lambda (%s) (%s 1 2)) %s)" % (n, n, mine)])                       # parameter
        P.append(["(let ((%s %s)) (%s (list 1 2)))" % (n, mine, n)])                     # let-bound
        P.append(["(define (f %s) (%s 5))" % (n, n), "(f %s)" % mine])                   # parameter of a global function
        P.append(["(define (f) (define (%s . a) (cons 'mine a)) (%s 1))" % (n, n), "(f)"])  # internal define
        if n != "void":
            P.append(["(define (old) (%s (list 1 2)))" % n, "(define (%s . a) (cons 'mine a))" % n, "(%s 1 2)" % n,
                      "(define (new) (%s 3))" % n, "(new)"])                           # global redefinition seen by later code
            # wrong arity must raise, right arity must work, through every call shape
            for args in ("", "1 2 3 4"):
                P.append(["(%s %s)" % (n, args)])
                P.append(["(define (f) (%s %s))" % (n, args), "(with-handler (lambda (e) 'err) (f))"])
    # --- dead code never raises
    P += [[x] for x in [
        "(if #f (car '()) 1)", "(if #t 1 (+ 1 \"a\"))", "(let ((x (lambda () (/ 1 0)))) 5)", "(and #f (error \"x\"))", "(or 1 (error \"x\"))",
        "(when #f (vector-ref (vector) 0))", "(cond (#t 1) (else (car 1)))", "(begin (lambda () (car 1)) 2)", "(case 1 ((1) 'a) (else (error \"x\")))",
        "(define (f) (if #f (undefined-thing) 1))", "(let loop ((i 0)) (if (< i 3) (loop (+ i 1)) (if #f (car i) i)))",
        "(if (null? '()) 'ok (list-ref '() 5))", "(let ((v (vector 1))) (if (< 0 (vector-length v)) (vector-ref v 0) (vector-ref v 1)))",
        "((lambda (x) (if x 1 (x))) #t)", "(map (lambda (x) (if (< x 10) x (car x))) (list 1 2))",
    ]]
    # --- let depth x argument count under a tail call (stack offsets)
    for depth in range(0, 4):
        for nargs in range(0, 5):
            params = " ".join("p%d" % i for i in range(nargs))
            binds = ""
            body = "(g %s)" % " ".join(["(+ x %d)" % i for i in range(nargs)]) if nargs else "(g)"
            inner = body
            for d in range(depth, 0, -1):
                inner = "(let ((t%d (+ x %d))) %s)" % (d, d * 100, inner.replace("(+ x 0)", "t%d" % d) if d == depth else inner)
            P.append(["(define (g %s) (list %s))" % (params, params), "(define (f x) %s)" % inner, "(f 1)"])
            P.append(["(define (g %s) (list %s))" % (params, params), "(define (f x) (list (let ((u 7)) %s) x))" % inner, "(f 1)"])
    # --- defines interleaved with expressions, begin flattening
    P += [
        ["(begin (define a 1) (display a) (define b (+ a 1)) b)"],
        ["(begin (begin (define a 1)) (begin (begin (define b 2) (+ a b))))"],
        ["(define a 1) (define b (+ a 1)) (define (f) (+ a b)) (f)"],
        ["(define (f) (begin (define a 1) (define b (+ a 1))) (* a b))", "(f)"],
        ["(define (f) (define a 1) (display a) (define b (+ a 1)) (list a b))", "(f)"],
        ["(let () (define (e? n) (if (= n 0) #t (o? (- n 1)))) (define (o? n) (if (= n 0) #f (e? (- n 1)))) (e? 7))"],
    ]
    # --- small (inlinable) functions, constant folding interplay
    P += [
        ["(define (sq x) (* x x))", "(define (f a) (+ (sq a) (sq (+ a 1))))", "(f 3)"],
        ["(define (k) 5)", "(define (f) (+ (k) (k)))", "(f)", "(define (k) 6)", "(f)"],
        ["(define (id x) x)", "(define (f) (id (id (id 7))))", "(f)"],
        ["(define (const) '(1 2))", "(eq? (const) (const))"],
        ["(define two 2)", "(define (f) (+ two 1))", "(f)", "(set! two 5)", "(f)"],
        ["(define (f) (+ 1 2 (* 3 4)))", "(f)"],
        ["(define n 10)", "(define (loop i acc) (if (= i n) acc (loop (+ i 1) (+ acc i))))", "(loop 0 0)"],
    ]
    # --- higher-order library procedures with closures
    P += [
        ["(define (f l) (let ((s 0)) (for-each (lambda (x) (set! s (+ s x))) l) s))", "(f (list 1 2 3))"],
        ["(foldl (lambda (x acc) (cons x acc)) '() (list 1 2 3))"], ["(foldr (lambda (x acc) (cons x acc)) '() (list 1 2 3))"],
        ["(filter (lambda (x) (< x 2)) (list 1 2 3 0))"], ["(map (lambda (x y) (+ x y)) (list 1 2) (list 10 20))"],
        ["(apply map (list (lambda (x) (+ x 1)) (list 1 2)))"], ["(map car (list (list 1) (list 2)))"],
        ["(define (compose f g) (lambda (x) (f (g x))))", "((compose car cdr) (list 1 2 3))"],
        ["(define (curry f a) (lambda b (apply f (cons a b))))", "((curry + 1) 2 3)"],
        ["(with-handler (lambda (e) 'caught) (map (lambda (x) (car x)) (list (list 1) 2)))"],
        ["(define (f) (with-handler (lambda (e) (display \"h\") 'v) (display \"a\") (error \"boom\") (display \"b\")))", "(f)"],
        ["(define (f) (with-handler (lambda (e) 1) (with-handler (lambda (e) (car 0)) (error \"x\"))))", "(f)"],
    ]
    # --- data: strings, vectors, hash maps
    P += [[x] for x in [
        "(string-append \"a\" \"b\")", "(string-length \"abc\")", "(let ((v (vector 1 2 3))) (vector-set! v 1 'x) (list (vector-ref v 1) (vector-length v)))",
        "(hash-ref (hash 'a 1 'b 2) 'b)", "(hash-contains? (hash-insert (hash) 'k 1) 'k)", "(hash-try-get (hash 'a 1) 'z)",
        "(let ((h (hash 'a 1))) (list (hash-ref (hash-insert h 'a 2) 'a) (hash-ref h 'a)))", "(list (quotient 7 2) (remainder 7 2) (modulo -7 2))",
        "(let ((b (box 1))) (set-box! b (+ (unbox b) 1)) (unbox b))", "(list 'a \"s\" #\\c 1.5 1/2)", "(equal? (list 1 (list 2)) (list 1 (list 2)))",
        "(vector-ref (vector 1) 1)", "(hash-ref (hash) 'a)", "(string-append \"a\" 5)", "(car 5)", "(+ 1 'a)", "((lambda (x) x))", "(1 2)",
        "`(1 ,(+ 1 1) ,@(list 3 4))", "(let-syntax () 1)" if False else "(list)",
    ]]
    return P


def jit_family():
    """operations the native tier compiles, operands at type boundaries, functions called repeatedly"""
    P = []
    ops2 = ["+", "-", "*", "<", "<=", "=", ">", ">=", "cons", "eq?", "equal?", "list", "quotient", "remainder"]
    vals = ["0", "1", "-1", "4611686018427387904", "9223372036854775807", "-9223372036854775808", "1.5", "1/2", "'()", "\"s\"", "#f"]
    for op in ops2:
        for a in vals:
            for b in vals[:7] + vals[8:9]:
                P.append(["(define (f x y) (%s x y))" % op, "(with-handler (lambda (e) 'err) (list (f %s %s) (f %s %s)))" % (a, b, b, a)])
    for op in ["car", "cdr", "null?", "not", "add1", "sub1", "zero?", "box", "list", "vector", "length"]:
        for a in vals + ["(list 1 2)", "(vector 1)"]:
            P.append(["(define (f x) (%s x))" % op, "(with-handler (lambda (e) 'err) (f %s))" % a])
    for lit in ["1", "2", "3", "10", "100"]:
        for a in ["0", "9223372036854775807", "-9223372036854775808", "9223372036854775808", "1.5", "1/2", "\"s\""]:
            P.append(["(define (f x) (list (+ x %s) (- x %s) (< x %s) (= x %s)))" % (lit, lit, lit, lit), "(with-handler (lambda (e) 'err) (f %s))" % a])
    # literal operand x values one and two steps inside the fixnum boundaries (a helper specialised for small literals may reason about
    # overflow for 0 and 1 only), reached directly, through map and from another compiled function
    near = ["9223372036854775806", "9223372036854775805", "-9223372036854775807", "-9223372036854775806", "4611686018427387903", "-4611686018427387905"]
    for lit in ["0", "1", "2", "3"]:
        for a in near:
            body = "(list (+ x %s) (- x %s) (- %s x) (< x %s) (= x %s))" % (lit, lit, lit, lit, lit)
            P.append(["(define (f x) %s)" % body, "(with-handler (lambda (e) 'err) (f %s))" % a])
            P.append(["(define (f x) %s)" % body, "(with-handler (lambda (e) 'err) (car (map f (list %s))))" % a])
            P.append(["(define (f x) %s)" % body, "(define (g y) (car (list (f y))))", "(with-handler (lambda (e) 'err) (g %s))" % a])
            P.append(["(define (f x acc) (if (null? acc) (f x (cons (- x %s) acc)) (cons (+ x %s) acc)))" % (lit, lit), "(with-handler (lambda (e) 'err) (f %s '()))" % a])
    # loops that run long enough to matter, with captured / boxed state
    P += [
        ["(define (sum n) (let loop ((i 0) (acc 0)) (if (= i n) acc (loop (+ i 1) (+ acc i)))))", "(sum 1000)"],
        ["(define (fib n) (if (< n 2) n (+ (fib (- n 1)) (fib (- n 2)))))", "(fib 15)"],
        ["(define (count l) (if (null? l) 0 (+ 1 (count (cdr l)))))", "(count (list 1 2 3 4 5))"],
        ["(define (mk) (let ((n 0)) (lambda () (set! n (+ n 1)) n)))", "(define c (mk))", "(let loop ((i 0)) (if (< i 100) (begin (c) (loop (+ i 1))) (c)))"],
        ["(define (big n) (if (= n 0) 1 (* 2 (big (- n 1)))))", "(big 70)"],
        ["(define (f l) (map (lambda (x) (* x x)) l))", "(f (list 1 2 3))"],
        ["(define (g v i) (vector-ref v i))", "(with-handler (lambda (e) 'err) (list (g (vector 1 2) 1) (g (vector 1 2) 2)))"],
    ]
    return P


def history_family():
    """evaluation histories on one engine: compiled code calls globals that are redefined / assigned afterwards"""
    P = []
    callers = [("direct", "(define (g) (f))"), ("tail-arg", "(define (g) (car (list (f))))"), ("map", "(define (g) (car (map (lambda (x) (f)) (list 1))))"),
               ("stored", "(define fs (list (lambda () (f))))(define (g) ((car fs)))"), ("param", "(define (h k) (k))(define (g) (h f))"),
               ("value", "(define (g) f)(define (gg) ((g)))")]
    changes = [("redefine", "(define (f) 'new)"), ("set", "(set! f (lambda () 'new))"), ("redefine-const", "(define f (lambda () 'new))")]
    for cn, cdef in callers:
        for chn, ch in changes:
            call = "(gg)" if cn == "value" else "(g)"
            P.append(["(define (f) 'old)", cdef, call, ch, call, "(f)"])
            P.append(["(define (f) 'old)", cdef, ch, call])
            P.append(["(define (f) 'old)", cdef, call, call, ch, call, "(define (g2) (f))", "(g2)"])
    # globals holding constants / native functions
    P += [
        ["(define k 7)", "(define (rd) k)", "(rd)", "(define (w x) (let ((k 1)) k) (set! k 99))", "(w 0)", "(list (rd) k)"],
        ["(define k 7)", "(define (rd) k)", "(define (w) (set! k 99))", "(w)", "(rd)"],
        ["(define k 7)", "(define (rd) (+ k 1))", "(rd)", "(set! k 8)", "(rd)", "(define k 100)", "(rd)", "(define (rd2) k)", "(rd2)"],
        ["(define pick car)", "(define (g l) (list (pick l)))", "(g (list 1 2))", "(set! pick cdr)", "(g (list 1 2))"],
        ["(define pick car)", "(define (g l) (pick l))", "(g (list 1 2))", "(set! pick cdr)", "(g (list 1 2))"],
        ["(define (op a b) (+ a b))", "(define (g) (op 1 2))", "(g)", "(set! op -)", "(g)", "(set! op (lambda (a b) 'x))", "(g)"],
        ["(define v 1)", "(define (g) (let loop ((i 0)) (if (< i 3) (loop (+ i 1)) v)))", "(g)", "(set! v 2)", "(g)"],
        ["(define (f) 1)", "(define (g) (+ (f) (f)))", "(g)", "(define (f) 10)", "(g)", "(define (g) (+ (f) (f)))", "(g)"],
    ]
    return P


def wide_family():
    """operand-count boundaries of the native tier: calls with 0..12 arguments in every call shape (registers hold at most eight),
    arithmetic / comparison instructions with 0..6 operands (native helpers exist for a few counts only), inside compiled functions"""
    P = []
    for n in range(0, 13):
        ps = " ".join("a%d" % i for i in range(n))
        args = " ".join(str(100 + i) for i in range(n))
        call = "(g %s)" % args if n else "(g)"
        deff = "(define (g %s) (list %s))" % (ps, ps) if n else "(define (g) (list))"
        P.append([deff, "(define (f) (car (list %s)))" % call, "(f)"])                       # non-tail call of a global
        P.append([deff, "(define (f) %s)" % call, "(f)"])                                      # tail call of a global
        P.append([deff, "(define (f h) (car (list (h %s))))" % args, "(f g)"])                 # non-tail call through a local
        P.append([deff, "(define (f h) (h %s))" % args, "(f g)"])                              # tail call through a local
        P.append(["(define (f x) (car (list (list %s))))" % " ".join(["x"] * n), "(f 7)"])       # built-in, variadic
        P.append(["(define (f x) (vector %s))" % " ".join(["x"] * n), "(vector-length (f 7))"])
        P.append([deff, "(define (f) (let loop ((i 0) (acc '())) (if (< i 2) (loop (+ i 1) (cons %s acc)) acc)))" % call, "(f)"])
        if n >= 1:
            # a self tail call that passes n arguments
            P.append(["(define (lp k %s) (if (= k 0) (list %s) (lp (- k 1) %s)))" % (ps, ps, " ".join("(+ a%d 1)" % i for i in range(n))),
                      "(lp 3 %s)" % args])
            # one argument too many / too few at a wide call site
            P.append([deff, "(define (f) (g %s 1))" % args, "(with-handler (lambda (e) 'err) (f))"])
            P.append([deff, "(define (f) (g %s))" % " ".join(str(100 + i) for i in range(n - 1)), "(with-handler (lambda (e) 'err) (f))"])
    ops = ["+", "-", "*", "/", "<", "<=", ">", ">=", "="]
    for op in ops:
        for n in range(0, 7):
            lits = " ".join(str(i + 2) for i in range(n))
            vars_ = " ".join(["x", "y", "x", "y", "x", "y"][:n])
            P.append(["(define (f x y) (%s %s))" % (op, vars_), "(with-handler (lambda (e) 'err) (list (f 7 3) (f 3 7) (f 2 2)))"])
            P.append(["(define (f x y) (list (%s %s)))" % (op, lits), "(with-handler (lambda (e) 'err) (f 1 1))"])
            if n >= 1:
                P.append(["(define (f x y) (%s x %s))" % (op, " ".join(str(i + 2) for i in range(n - 1))), "(with-handler (lambda (e) 'err) (list (f 1 1) (f 30 1)))"])
                P.append(["(define (f x y) (if (%s %s) 'yes 'no))" % (op, vars_), "(with-handler (lambda (e) 'err) (list (f 7 3) (f 3 7) (f 2 2)))"])
    return P
