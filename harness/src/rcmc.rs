// C05: explicit-state + schedule exploration of the real steel-rc code.
//
// Level 1: BFS over operation histories (each operation executed atomically on its designated real OS
//          thread), deduplicated by the complete count state of the object.
// Level 2: from every Level-1 state, every pair of operations on distinct threads is run CONCURRENTLY under
//          a controlled scheduler and ALL interleavings of their gates are enumerated (stateless DFS).
//
// request : {"op":"l1","threads":N,"cap_thread":a,"cap_total":b,"unregistered_creator":bool,"max_states":M}
//           {"op":"l2","threads":N,"cap_thread":a,"cap_total":b,"histories":[[op..]..]}
// response: one JSON object per request.
use serde_json::{json, Value};
use std::cell::Cell;
use std::collections::{HashMap, HashSet, VecDeque};
use std::io::{BufRead, Write};
use std::sync::atomic::{AtomicUsize, Ordering};
use std::sync::mpsc::{channel, Receiver, Sender};
use std::sync::{Condvar, Mutex};
use steel_rc::verif as rv;
use steel_rc::BiasedRc;

// ------------------------------------------------------------------------------------------- payload / ghost
static DESTROYED: Mutex<Vec<u32>> = Mutex::new(Vec::new());
static NEXT_ID: AtomicUsize = AtomicUsize::new(0);
static QUARANTINED: Mutex<Vec<usize>> = Mutex::new(Vec::new());
static EVENTS: Mutex<Vec<String>> = Mutex::new(Vec::new());

#[derive(Debug)]
struct Payload {
    id: usize,
    canary: u64,
}

impl Payload {
    fn new() -> Payload {
        let id = NEXT_ID.fetch_add(1, Ordering::SeqCst);
        let mut d = DESTROYED.lock().unwrap();
        while d.len() <= id {
            d.push(0);
        }
        Payload { id, canary: 0xC0FFEE }
    }
}

impl Clone for Payload {
    fn clone(&self) -> Self {
        Payload::new()
    }
}

impl Drop for Payload {
    fn drop(&mut self) {
        let mut d = DESTROYED.lock().unwrap();
        d[self.id] += 1;
        self.canary = 0xDEAD;
    }
}

fn on_quarantine(addr: usize) -> bool {
    QUARANTINED.lock().unwrap().push(addr);
    true
}

fn on_touch(addr: usize) {
    if QUARANTINED.lock().unwrap().contains(&addr) {
        EVENTS.lock().unwrap().push("use-after-free".to_string());
    }
}

// ------------------------------------------------------------------------------------------- scheduler
thread_local! { static PARTICIPANT: Cell<Option<usize>> = Cell::new(None); }

#[derive(Clone, Copy, PartialEq, Debug)]
enum PState {
    Idle,
    Running,
    Waiting(u32),
    Done,
}

struct Sched {
    active: bool,
    st: [PState; 3],
    grant: [bool; 3],
    lock_owner: Option<usize>,
    lock_depth: usize,
}

static SCHED: Mutex<Sched> = Mutex::new(Sched { active: false, st: [PState::Idle; 3], grant: [false; 3], lock_owner: None, lock_depth: 0 });
static SCHED_CV: Condvar = Condvar::new();

fn on_gate(kind: u32) {
    let me = match PARTICIPANT.with(|p| p.get()) {
        Some(m) => m,
        None => return,
    };
    let mut g = SCHED.lock().unwrap();
    if !g.active {
        return;
    }
    g.st[me] = PState::Waiting(kind);
    SCHED_CV.notify_all();
    while !g.grant[me] {
        g = SCHED_CV.wait(g).unwrap();
    }
    g.grant[me] = false;
    g.st[me] = PState::Running;
}

// ------------------------------------------------------------------------------------------- workers
type Job = Box<dyn FnOnce(&mut Worker) -> Value + Send>;

struct Worker {
    idx: usize,
    handles: Vec<BiasedRc<Payload>>,
}

struct Pool {
    tx: Vec<Sender<(Job, bool)>>,
    rx: Vec<Receiver<Value>>,
    tids: Vec<usize>,
}

impl Pool {
    fn new() -> Pool {
        let mut tx = Vec::new();
        let mut rx = Vec::new();
        let mut tids = Vec::new();
        for idx in 0..3 {
            let (jtx, jrx) = channel::<(Job, bool)>();
            let (rtx, rrx) = channel::<Value>();
            std::thread::spawn(move || {
                let mut w = Worker { idx, handles: Vec::new() };
                rtx.send(json!(rv::current_thread_raw())).unwrap();
                while let Ok((job, controlled)) = jrx.recv() {
                    if controlled {
                        PARTICIPANT.with(|p| p.set(Some(idx)));
                        {
                            let mut g = SCHED.lock().unwrap();
                            g.st[idx] = PState::Running;
                        }
                    }
                    let r = match std::panic::catch_unwind(std::panic::AssertUnwindSafe(|| job(&mut w))) {
                        Ok(v) => v,
                        Err(_) => json!({"panic": crate::evalsrv::last_panic()}),
                    };
                    if controlled {
                        PARTICIPANT.with(|p| p.set(None));
                        let mut g = SCHED.lock().unwrap();
                        g.st[idx] = PState::Done;
                        SCHED_CV.notify_all();
                    }
                    rtx.send(r).unwrap();
                }
            });
            tids.push(rrx.recv().unwrap().as_u64().unwrap() as usize);
            tx.push(jtx);
            rx.push(rrx);
        }
        Pool { tx, rx, tids }
    }

    fn run(&self, t: usize, job: Job) -> Value {
        self.tx[t].send((job, false)).unwrap();
        self.rx[t].recv().unwrap()
    }
}

// ------------------------------------------------------------------------------------------- operations
#[derive(Clone, Debug, PartialEq, Eq, Hash)]
enum Op {
    New(usize, bool),      // creator thread, registered first?
    Clone(usize),
    Drop(usize),
    Send(usize, usize),
    CloneFrom(usize, usize),
    GetMut(usize),
    TryUnwrap(usize),
    StrongCount(usize),
    Merge(usize),
    Register(usize),
    Exit(usize),
}

impl Op {
    fn thread(&self) -> usize {
        match self {
            Op::New(t, _) | Op::Clone(t) | Op::Drop(t) | Op::Send(t, _) | Op::CloneFrom(t, _) | Op::GetMut(t) | Op::TryUnwrap(t)
            | Op::StrongCount(t) | Op::Merge(t) | Op::Register(t) | Op::Exit(t) => *t,
        }
    }
    fn to_json(&self) -> Value {
        match self {
            Op::New(t, r) => json!(["new", t, r]),
            Op::Clone(t) => json!(["clone", t]),
            Op::Drop(t) => json!(["drop", t]),
            Op::Send(t, u) => json!(["send", t, u]),
            Op::CloneFrom(t, u) => json!(["clone-from", t, u]),
            Op::GetMut(t) => json!(["get-mut", t]),
            Op::TryUnwrap(t) => json!(["try-unwrap", t]),
            Op::StrongCount(t) => json!(["strong-count", t]),
            Op::Merge(t) => json!(["merge", t]),
            Op::Register(t) => json!(["register", t]),
            Op::Exit(t) => json!(["exit", t]),
        }
    }
    fn from_json(v: &Value) -> Op {
        let a = v.as_array().unwrap();
        let n = |i: usize| a[i].as_u64().unwrap() as usize;
        match a[0].as_str().unwrap() {
            "new" => Op::New(n(1), a[2].as_bool().unwrap()),
            "clone" => Op::Clone(n(1)),
            "drop" => Op::Drop(n(1)),
            "send" => Op::Send(n(1), n(2)),
            "clone-from" => Op::CloneFrom(n(1), n(2)),
            "get-mut" => Op::GetMut(n(1)),
            "try-unwrap" => Op::TryUnwrap(n(1)),
            "strong-count" => Op::StrongCount(n(1)),
            "merge" => Op::Merge(n(1)),
            "register" => Op::Register(n(1)),
            _ => Op::Exit(n(1)),
        }
    }
}

// handles in transit / borrowed across threads travel through this mailbox (the BiasedRc itself is Send)
static MAILBOX: Mutex<Vec<BiasedRc<Payload>>> = Mutex::new(Vec::new());
static BORROW: AtomicUsize = AtomicUsize::new(0); // *const BiasedRc<Payload> lent for clone-from

/// Ghost state: number of live handles per thread, object unwrapped?, registered threads
#[derive(Clone, Debug, Default)]
struct Ghost {
    handles: [usize; 3],
    unwrapped: bool,
    created: bool,
}

impl Ghost {
    fn total(&self) -> usize {
        self.handles.iter().sum()
    }
}

struct Exec<'a> {
    pool: &'a Pool,
    ghost: Ghost,
    violations: Vec<String>,
}

impl<'a> Exec<'a> {
    fn reset(pool: &'a Pool) -> Exec<'a> {
        // drop nothing: leftover handles of a previous execution are forgotten (boxes are quarantined / leaked)
        for t in 0..3 {
            pool.run(t, Box::new(|w| {
                for h in w.handles.drain(..) {
                    std::mem::forget(h);
                }
                json!(null)
            }));
        }
        for h in MAILBOX.lock().unwrap().drain(..) {
            std::mem::forget(h);
        }
        rv::reset_queue();
        EVENTS.lock().unwrap().clear();
        Exec { pool, ghost: Ghost::default(), violations: Vec::new() }
    }

    fn enabled(&self, op: &Op, threads: usize, cap_thread: usize, cap_total: usize) -> bool {
        let g = &self.ghost;
        let has = |t: usize| g.handles[t] > 0;
        if op.thread() >= threads {
            return false;
        }
        match op {
            Op::New(..) => !g.created,
            Op::Clone(t) => has(*t) && g.handles[*t] < cap_thread && g.total() < cap_total,
            Op::Drop(t) | Op::GetMut(t) | Op::TryUnwrap(t) | Op::StrongCount(t) => has(*t),
            Op::Send(t, u) => t != u && *u < threads && has(*t) && g.handles[*u] < cap_thread,
            Op::CloneFrom(t, u) => t != u && *u < threads && has(*u) && g.handles[*t] < cap_thread && g.total() < cap_total,
            Op::Merge(_) | Op::Register(_) => g.created,
            Op::Exit(t) => g.created && !has(*t),
        }
    }

    /// the job that performs `op` on its thread (used both sequentially and under the scheduler)
    fn job(op: &Op) -> Job {
        match op.clone() {
            Op::New(_, reg) => Box::new(move |w| {
                if reg {
                    steel_rc::register_thread();
                }
                w.handles.push(BiasedRc::new(Payload::new()));
                json!(null)
            }),
            Op::Clone(_) => Box::new(|w| {
                let h = w.handles.last().unwrap().clone();
                w.handles.push(h);
                json!(null)
            }),
            Op::Drop(_) => Box::new(|w| {
                let h = w.handles.pop().unwrap();
                drop(h);
                json!(null)
            }),
            Op::Send(_, _) => Box::new(|w| {
                let h = w.handles.pop().unwrap();
                MAILBOX.lock().unwrap().push(h);
                json!(null)
            }),
            Op::CloneFrom(_, _) => Box::new(|w| {
                let p = BORROW.load(Ordering::SeqCst) as *const BiasedRc<Payload>;
                let h = unsafe { (*p).clone() };
                w.handles.push(h);
                json!(null)
            }),
            Op::GetMut(_) => Box::new(|w| {
                let h = w.handles.last_mut().unwrap();
                json!(BiasedRc::get_mut(h).is_some())
            }),
            Op::TryUnwrap(_) => Box::new(|w| {
                let h = w.handles.pop().unwrap();
                match BiasedRc::try_unwrap(h) {
                    Ok(p) => {
                        drop(p);
                        json!(true)
                    }
                    Err(h) => {
                        w.handles.push(h);
                        json!(false)
                    }
                }
            }),
            Op::StrongCount(_) => Box::new(|w| json!(BiasedRc::strong_count(w.handles.last().unwrap()))),
            Op::Merge(_) => Box::new(|_w| json!(steel_rc::QueueHandle::run_explicit_merge())),
            Op::Register(_) => Box::new(|_w| {
                steel_rc::register_thread();
                json!(null)
            }),
            Op::Exit(_) => Box::new(|_w| {
                steel_rc::QueueHandle::finish_thread_merge();
                json!(null)
            }),
        }
    }

    fn prepare(&self, op: &Op) {
        if let Op::CloneFrom(_, u) = op {
            let p = self.pool.run(*u, Box::new(|w| json!(w.handles.last().unwrap() as *const BiasedRc<Payload> as usize)));
            BORROW.store(p.as_u64().unwrap() as usize, Ordering::SeqCst);
        }
    }

    fn finish(&mut self, op: &Op, result: &Value, count_before: usize, count_alt: usize) {
        // count_before / count_alt: ghost handle count at this operation's point in the possible linearisations
        match op {
            Op::New(t, _) => {
                self.ghost.created = true;
                self.ghost.handles[*t] += 1;
            }
            Op::Clone(t) => self.ghost.handles[*t] += 1,
            Op::Drop(t) => self.ghost.handles[*t] -= 1,
            Op::Send(t, u) => {
                let h = MAILBOX.lock().unwrap().pop().unwrap();
                self.pool.run(*u, Box::new(move |w| {
                    w.handles.push(h);
                    json!(null)
                }));
                self.ghost.handles[*t] -= 1;
                self.ghost.handles[*u] += 1;
            }
            Op::CloneFrom(t, _) => self.ghost.handles[*t] += 1,
            Op::GetMut(_) => {
                if result.as_bool() == Some(true) && count_before != 1 && count_alt != 1 {
                    self.violations.push(format!("exclusive-access-while-shared: get_mut granted with {} live handles", count_before));
                }
            }
            Op::TryUnwrap(t) => {
                if result.as_bool() == Some(true) {
                    if count_before != 1 && count_alt != 1 {
                        self.violations.push(format!("unwrap-while-shared: try_unwrap succeeded with {} live handles", count_before));
                    }
                    self.ghost.handles[*t] -= 1;
                    self.ghost.unwrapped = true;
                }
            }
            _ => {}
        }
    }

    fn step(&mut self, op: &Op) {
        if std::env::var("RCMC_TRACE").is_ok() {
            eprintln!("step {:?} ghost {:?}", op, self.ghost.handles);
        }
        self.prepare(op);
        let before = self.ghost.total();
        let r = self.pool.run(op.thread(), Exec::job(op));
        if let Some(p) = r.get("panic") {
            self.violations.push(format!("panic: {}", p.as_str().unwrap_or("?")));
            return;
        }
        self.finish(op, &r, before, before);
        self.check_invariant(&format!("after {:?}", op));
    }

    fn destroyed(&self) -> u32 {
        DESTROYED.lock().unwrap().last().copied().unwrap_or(0)
    }

    fn check_invariant(&mut self, at: &str) {
        let d = self.destroyed();
        for e in EVENTS.lock().unwrap().drain(..) {
            self.violations.push(format!("{} {}", e, at));
        }
        if d > 1 {
            self.violations.push(format!("double-destroy {}", at));
        }
        if d >= 1 && self.ghost.total() > 0 {
            self.violations.push(format!("destroyed-while-{}-handles-live {}", self.ghost.total(), at));
        }
        // every live handle still sees intact contents
        if d == 0 {
            for t in 0..3 {
                if self.ghost.handles[t] > 0 {
                    let ok = self.pool.run(t, Box::new(|w| json!(w.handles.iter().all(|h| h.canary == 0xC0FFEE))));
                    if ok.as_bool() != Some(true) {
                        self.violations.push(format!("contents-corrupted {}", at));
                    }
                }
            }
        }
    }

    /// quiescence: all handles dropped, every thread merges (twice) and exits, then re-registers and merges: the destructor
    /// must have run exactly once (unless the value was unwrapped)
    fn drain_and_check(&mut self, threads: usize) {
        for t in 0..threads {
            while self.ghost.handles[t] > 0 {
                self.step(&Op::Drop(t));
            }
        }
        for _round in 0..2 {
            for t in 0..threads {
                self.step(&Op::Merge(t));
            }
        }
        let d = self.destroyed();
        if self.ghost.created && d == 0 {
            // give the remaining protocol steps a chance: exit + re-register + merge
            for t in 0..threads {
                self.step(&Op::Exit(t));
            }
            for t in 0..threads {
                self.step(&Op::Register(t));
                self.step(&Op::Merge(t));
            }
            if self.destroyed() == 0 {
                self.violations.push("leak: all handles dropped, all threads merged and exited, destructor never ran".to_string());
            } else {
                self.violations.push("leak-until-owner-exit: destructor only ran after every thread exited and re-registered".to_string());
            }
        }
    }

    fn drift(&self, threads: usize) -> i64 {
        for t in 0..threads {
            if self.ghost.handles[t] > 0 {
                let v = self.pool.run(t, Box::new(|w| {
                    let (_o, biased, word) = rv::peek(w.handles.last().unwrap());
                    // 30-bit signed counter
                    let raw = (word & ((1 << 30) - 1)) as i64;
                    let c = if raw & (1 << 29) != 0 { raw - (1 << 30) } else { raw };
                    json!([biased, c])
                }));
                return (v[0].as_i64().unwrap()).max(v[1].as_i64().unwrap().abs());
            }
        }
        0
    }

    fn key(&self, threads: usize) -> String {
        // complete count state of the object + queue + ghost
        let mut s = String::new();
        let mut found = false;
        for t in 0..threads {
            if self.ghost.handles[t] > 0 && !found {
                let tids = self.pool.tids.clone();
                let v = self.pool.run(t, Box::new(move |w| {
                    let (owner, biased, word) = rv::peek(w.handles.last().unwrap());
                    let o = if owner == 0 { 9 } else { tids.iter().position(|x| *x == owner).unwrap_or(8) };
                    json!([o, biased, word])
                }));
                s.push_str(&v.to_string());
                found = true;
            }
        }
        let (reg, unreg) = rv::queue_snapshot();
        let idx = |raw: usize| if raw == 0 { 9 } else { self.pool.tids.iter().position(|x| *x == raw).unwrap_or(8) };
        let mut r: Vec<(usize, usize)> = reg.iter().map(|(k, n)| (idx(*k), *n)).collect();
        let mut u: Vec<(usize, usize)> = unreg.iter().map(|(k, n)| (idx(*k), *n)).filter(|x| x.1 > 0).collect();
        r.sort();
        u.sort();
        s.push_str(&format!("|h{:?}|r{:?}|u{:?}|d{}|x{}", &self.ghost.handles[..threads], r, u, self.destroyed(), self.ghost.unwrapped));
        s
    }
}

fn alphabet(threads: usize) -> Vec<Op> {
    let mut v = Vec::new();
    for t in 0..threads {
        v.push(Op::Clone(t));
        v.push(Op::Drop(t));
        v.push(Op::GetMut(t));
        v.push(Op::TryUnwrap(t));
        v.push(Op::StrongCount(t));
        v.push(Op::Merge(t));
        v.push(Op::Register(t));
        v.push(Op::Exit(t));
        for u in 0..threads {
            if u != t {
                v.push(Op::Send(t, u));
                v.push(Op::CloneFrom(t, u));
            }
        }
    }
    v
}

fn replay<'a>(pool: &'a Pool, hist: &[Op]) -> Exec<'a> {
    let mut e = Exec::reset(pool);
    for op in hist {
        e.step(op);
    }
    e
}

fn short(v: &str) -> String {
    // violation class without the history-specific suffix
    v.split(" after ").next().unwrap_or(v).split(" at ").next().unwrap_or(v).to_string()
}

fn l1(pool: &Pool, req: &Value) -> Value {
    let threads = req["threads"].as_u64().unwrap_or(2) as usize;
    let cap_thread = req["cap_thread"].as_u64().unwrap_or(2) as usize;
    let cap_total = req["cap_total"].as_u64().unwrap_or(3) as usize;
    let max_states = req["max_states"].as_u64().unwrap_or(200000) as usize;
    let alpha = alphabet(threads);
    let mut seen: HashSet<String> = HashSet::new();
    let mut frontier: VecDeque<Vec<Op>> = VecDeque::new();
    let mut states: Vec<Vec<Op>> = Vec::new();
    let mut transitions = 0usize;
    let mut viol: HashMap<String, Vec<Op>> = HashMap::new();
    for reg in [true, false] {
        let h = vec![Op::New(0, reg)];
        let e = replay(pool, &h);
        if seen.insert(e.key(threads)) {
            frontier.push_back(h.clone());
            states.push(h);
        }
    }
    let mut capped = false;
    let mut pruned = 0usize;
    let drift_bound = req["drift_bound"].as_i64().unwrap_or(cap_total as i64 + 1);
    while let Some(h) = frontier.pop_front() {
        let base = replay(pool, &h);
        let enabled: Vec<Op> = alpha.iter().filter(|op| base.enabled(op, threads, cap_thread, cap_total)).cloned().collect();
        drop(base);
        for op in enabled {
            let mut e = replay(pool, &h);
            e.step(&op);
            transitions += 1;
            let mut hh = h.clone();
            hh.push(op.clone());
            if !e.violations.is_empty() {
                for v in &e.violations {
                    viol.entry(short(v)).or_insert_with(|| hh.clone());
                }
                continue; // do not explore beyond a violating state
            }
            // quiescence check from this state (on a copy: replay again)
            if std::env::var("RCMC_TRACE").is_ok() {
                eprintln!("key...");
            }
            let k = e.key(threads);
            if std::env::var("RCMC_TRACE").is_ok() {
                eprintln!("key = {}", k);
            }
            // moving handles away from the owner lets the owner-local and the shared counter drift apart without
            // bound (+k / -k); the exploration is bounded on that drift
            if e.drift(threads) > drift_bound {
                pruned += 1;
                continue;
            }
            if seen.insert(k) {
                let mut q = replay(pool, &hh);
                q.drain_and_check(threads);
                for v in &q.violations {
                    let entry = viol.entry(short(v));
                    entry.or_insert_with(|| hh.clone());
                }
                if states.len() < max_states {
                    states.push(hh.clone());
                    frontier.push_back(hh);
                } else {
                    capped = true;
                }
            }
        }
    }
    let vj: Vec<Value> = viol.iter().map(|(k, h)| json!({"class": k, "history": h.iter().map(|o| o.to_json()).collect::<Vec<_>>()})).collect();
    json!({"states": states.len(), "transitions": transitions, "capped": capped, "pruned_by_drift_bound": pruned, "drift_bound": drift_bound, "violations": vj,
           "histories": states.iter().map(|h| h.iter().map(|o| o.to_json()).collect::<Vec<_>>()).collect::<Vec<_>>()})
}

// ------------------------------------------------------------------------------------------- level 2
struct Decision {
    enabled: Vec<usize>,
    chosen: usize,
}

fn conflicting(a: &Op, b: &Op) -> bool {
    // a handle that one thread consumes or needs &mut of must not be lent to the other at the same time
    let lends = |x: &Op, y: &Op| matches!(x, Op::CloneFrom(_, u) if *u == y.thread())
        && matches!(y, Op::Drop(_) | Op::Send(..) | Op::TryUnwrap(_) | Op::GetMut(_) | Op::Exit(_) | Op::Clone(_) | Op::CloneFrom(..));
    lends(a, b) || lends(b, a) || matches!((a, b), (Op::Send(_, u), _) if *u == b.thread()) || matches!((b, a), (Op::Send(_, u), _) if *u == a.thread())
}

/// run ops a and b concurrently following `prefix` at the decision points, default = first enabled afterwards
fn run_pair(pool: &Pool, hist: &[Op], a: &Op, b: &Op, prefix: &[usize], threads: usize) -> (Vec<Decision>, Vec<String>, Vec<u32>) {
    let mut e = replay(pool, hist);
    e.prepare(a);
    let borrow_a = BORROW.load(Ordering::SeqCst);
    e.prepare(b);
    let borrow_b = BORROW.load(Ordering::SeqCst);
    let _ = (borrow_a, borrow_b); // only one of the two can be a clone-from with a non-conflicting lender
    let (ta, tb) = (a.thread(), b.thread());
    {
        let mut g = SCHED.lock().unwrap();
        g.active = true;
        g.st = [PState::Idle; 3];
        g.st[ta] = PState::Running;
        g.st[tb] = PState::Running;
        g.grant = [false; 3];
        g.lock_owner = None;
        g.lock_depth = 0;
    }
    if let Op::CloneFrom(..) = a {
        BORROW.store(borrow_a, Ordering::SeqCst);
    }
    pool.tx[ta].send((Exec::job(a), true)).unwrap();
    pool.tx[tb].send((Exec::job(b), true)).unwrap();
    let mut decisions: Vec<Decision> = Vec::new();
    let mut kinds: Vec<u32> = Vec::new();
    let mut order: Vec<usize> = Vec::new(); // completion order of the two operations
    loop {
        let mut g = SCHED.lock().unwrap();
        // wait until both are at a gate or done
        while [ta, tb].iter().any(|t| g.st[*t] == PState::Running) {
            g = SCHED_CV.wait(g).unwrap();
        }
        for t in [ta, tb] {
            if g.st[t] == PState::Done && !order.contains(&t) {
                order.push(t);
            }
        }
        let mut enabled: Vec<usize> = Vec::new();
        let mut blocked = 0;
        for t in [ta, tb] {
            if let PState::Waiting(k) = g.st[t] {
                if k == rv::QUEUE_LOCK && g.lock_owner.is_some() && g.lock_owner != Some(t) {
                    blocked += 1;
                } else {
                    enabled.push(t);
                }
            }
        }
        if enabled.is_empty() {
            if blocked > 0 {
                e.violations.push("deadlock: a thread waits for the queue lock that nobody will release".to_string());
            }
            break;
        }
        let i = decisions.len();
        let chosen = if i < prefix.len() { prefix[i] } else { enabled[0] };
        if !enabled.contains(&chosen) {
            e.violations.push("MACHINERY: replay divergence".to_string());
            break;
        }
        if let PState::Waiting(k) = g.st[chosen] {
            kinds.push(k);
            if k == rv::QUEUE_LOCK {
                g.lock_owner = Some(chosen);
                g.lock_depth += 1;
            } else if k == rv::QUEUE_UNLOCK && g.lock_owner == Some(chosen) {
                g.lock_depth -= 1;
                if g.lock_depth == 0 {
                    g.lock_owner = None;
                }
            }
        }
        decisions.push(Decision { enabled, chosen });
        g.st[chosen] = PState::Running;
        g.grant[chosen] = true;
        SCHED_CV.notify_all();
    }
    {
        let mut g = SCHED.lock().unwrap();
        g.active = false;
        // release anybody still waiting (only after a deadlock/divergence)
        for t in [ta, tb] {
            if let PState::Waiting(_) = g.st[t] {
                g.grant[t] = true;
            }
        }
        SCHED_CV.notify_all();
    }
    let ra = pool.rx[ta].recv().unwrap();
    let rb = pool.rx[tb].recv().unwrap();
    for r in [&ra, &rb] {
        if let Some(p) = r.get("panic") {
            e.violations.push(format!("panic: {}", p.as_str().unwrap_or("?")));
        }
    }
    if ra.get("panic").is_some() || rb.get("panic").is_some() {
        return (decisions, e.violations.clone(), kinds);
    }
    // ghost update: both orders are possible linearisations
    let before = e.ghost.total();
    let delta = |op: &Op, r: &Value| -> i64 {
        match op {
            Op::Clone(_) | Op::CloneFrom(..) => 1,
            Op::Drop(_) => -1,
            Op::TryUnwrap(_) if r.as_bool() == Some(true) => -1,
            _ => 0,
        }
    };
    let (da, db) = (delta(a, &ra), delta(b, &rb));
    // handle count at an operation's linearisation point: either it went first, or the other one did
    e.finish(a, &ra, before, (before as i64 + db) as usize);
    e.finish(b, &rb, before, (before as i64 + da) as usize);
    let _ = threads;
    e.check_invariant("after the concurrent pair");
    e.drain_and_check(threads);
    let v = e.violations.clone();
    (decisions, v, kinds)
}

fn l2(pool: &Pool, req: &Value) -> Value {
    let threads = req["threads"].as_u64().unwrap_or(2) as usize;
    let cap_thread = req["cap_thread"].as_u64().unwrap_or(2) as usize;
    let cap_total = req["cap_total"].as_u64().unwrap_or(3) as usize;
    let max_sched = req["max_schedules_per_pair"].as_u64().unwrap_or(20000) as usize;
    let alpha = alphabet(threads);
    let mut schedules = 0usize;
    let mut pairs = 0usize;
    let mut max_gates = 0usize;
    let mut capped_pairs = 0usize;
    let mut viol: HashMap<String, Value> = HashMap::new();
    let mut distinct_traces: HashSet<Vec<u32>> = HashSet::new();
    for hv in req["histories"].as_array().unwrap() {
        let hist: Vec<Op> = hv.as_array().unwrap().iter().map(Op::from_json).collect();
        let base = replay(pool, &hist);
        let enabled: Vec<Op> = alpha.iter().filter(|op| base.enabled(op, threads, cap_thread, cap_total)).cloned().collect();
        drop(base);
        for (i, a) in enabled.iter().enumerate() {
            for b in enabled.iter().skip(i + 1) {
                if a.thread() == b.thread() || conflicting(a, b) {
                    continue;
                }
                // both must still be enabled after the other (handle caps)
                let g = replay(pool, &hist);
                let tot = g.ghost.total();
                let grows = |o: &Op| matches!(o, Op::Clone(_) | Op::CloneFrom(..));
                if grows(a) && grows(b) && tot + 2 > cap_total {
                    continue;
                }
                drop(g);
                pairs += 1;
                // stateless DFS over the interleavings of the two operations' gates
                let mut stack: Vec<Vec<usize>> = vec![Vec::new()];
                let mut n_here = 0usize;
                while let Some(prefix) = stack.pop() {
                    let (dec, v, kinds) = run_pair(pool, &hist, a, b, &prefix, threads);
                    schedules += 1;
                    n_here += 1;
                    max_gates = max_gates.max(dec.len());
                    distinct_traces.insert(kinds);
                    for x in &v {
                        viol.entry(short(x)).or_insert_with(|| {
                            json!({"class": short(x), "history": hist.iter().map(|o| o.to_json()).collect::<Vec<_>>(),
                                   "pair": [a.to_json(), b.to_json()], "schedule": dec.iter().map(|d| d.chosen).collect::<Vec<_>>()})
                        });
                    }
                    if n_here >= max_sched {
                        capped_pairs += 1;
                        break;
                    }
                    for i in prefix.len()..dec.len() {
                        for alt in &dec[i].enabled {
                            if *alt != dec[i].chosen {
                                let mut p: Vec<usize> = dec[..i].iter().map(|d| d.chosen).collect();
                                p.push(*alt);
                                stack.push(p);
                            }
                        }
                    }
                }
            }
        }
    }
    json!({"pairs": pairs, "schedules": schedules, "max_gates": max_gates, "capped_pairs": capped_pairs,
           "distinct_gate_traces": distinct_traces.len(), "violations": viol.values().cloned().collect::<Vec<_>>()})
}

fn replay_one(pool: &Pool, req: &Value) -> Value {
    let threads = req["threads"].as_u64().unwrap_or(3) as usize;
    let hist: Vec<Op> = req["history"].as_array().unwrap().iter().map(Op::from_json).collect();
    if let Some(pair) = req.get("pair").and_then(|p| p.as_array()) {
        let a = Op::from_json(&pair[0]);
        let b = Op::from_json(&pair[1]);
        let sched: Vec<usize> = req["schedule"].as_array().unwrap().iter().map(|x| x.as_u64().unwrap() as usize).collect();
        let (d1, v1, k1) = run_pair(pool, &hist, &a, &b, &sched, threads);
        let (_d2, v2, k2) = run_pair(pool, &hist, &a, &b, &sched, threads);
        return json!({"violations": v1, "deterministic": v1 == v2 && k1 == k2, "gates": d1.len()});
    }
    let mut e = replay(pool, &hist);
    let mut v = e.violations.clone();
    e.drain_and_check(threads);
    v.extend(e.violations.clone());
    json!({"violations": v})
}

pub fn main(_args: &[String]) {
    crate::evalsrv::install_panic_hook();
    rv::install(Some(on_gate), Some(on_quarantine), Some(on_touch));
    let pool = Pool::new();
    let stdin = std::io::stdin();
    let stdout = std::io::stdout();
    {
        let mut o = stdout.lock();
        let _ = writeln!(o, "{}", json!({"ready":true}));
        let _ = o.flush();
    }
    for line in stdin.lock().lines() {
        let line = match line {
            Ok(l) => l,
            Err(_) => break,
        };
        if line.trim().is_empty() {
            continue;
        }
        let req: Value = serde_json::from_str(&line).unwrap_or(Value::Null);
        let out = match req["op"].as_str().unwrap_or("") {
            "l1" => l1(&pool, &req),
            "l2" => l2(&pool, &req),
            "replay" => replay_one(&pool, &req),
            _ => json!({"error": "bad op"}),
        };
        let mut o = stdout.lock();
        let _ = writeln!(o, "{}", out);
        let _ = writeln!(o, "{}", json!({"done":true,"exit":"normal"}));
        let _ = o.flush();
    }
}
