// C17: deterministic injection of an interrupt request at a chosen gate ordinal (hook H7), or after a delay from a watchdog thread
// when the program does not pass enough gates (native code without dispatch).
use std::sync::atomic::{AtomicBool, AtomicI64, AtomicU64, AtomicUsize, Ordering};
use std::sync::{Mutex, OnceLock};
use std::time::Instant;
use steel::steel_vm::ThreadStateController;

static CONTROLLER: OnceLock<ThreadStateController> = OnceLock::new();
static START: OnceLock<Instant> = OnceLock::new();
static ACTIVE: AtomicBool = AtomicBool::new(false);
static TARGET: AtomicUsize = AtomicUsize::new(0); // gate ordinal at which to inject (1-based); 0 = never by ordinal
static KIND_MASK: AtomicU64 = AtomicU64::new(u64::MAX); // which gate kinds count
static ORDINAL: AtomicUsize = AtomicUsize::new(0);
static INJECTED_AT: AtomicUsize = AtomicUsize::new(0);
static INJECTED_KIND: AtomicUsize = AtomicUsize::new(0);
static GATES_AFTER: AtomicUsize = AtomicUsize::new(0);
static DISPATCH_AFTER: AtomicUsize = AtomicUsize::new(0);
static INJECTED_US: AtomicI64 = AtomicI64::new(-1);
static RETURNED_US: AtomicI64 = AtomicI64::new(-1);
static TIMED: AtomicBool = AtomicBool::new(false);
static MAIN_THREAD: Mutex<Option<std::thread::ThreadId>> = Mutex::new(None);

fn now_us() -> i64 {
    START.get_or_init(Instant::now).elapsed().as_micros() as i64
}

pub fn set_controller(c: ThreadStateController) {
    let _ = CONTROLLER.set(c);
}

fn inject(kind: u32, timed: bool) {
    if INJECTED_US.load(Ordering::SeqCst) >= 0 {
        return;
    }
    INJECTED_US.store(now_us(), Ordering::SeqCst);
    INJECTED_AT.store(ORDINAL.load(Ordering::SeqCst), Ordering::SeqCst);
    INJECTED_KIND.store(kind as usize, Ordering::SeqCst);
    TIMED.store(timed, Ordering::SeqCst);
    crate::util::child_mark("777003");
    if let Some(c) = CONTROLLER.get() {
        c.interrupt();
    }
}

fn on_gate(kind: u32, _arg: usize) {
    if !ACTIVE.load(Ordering::Relaxed) {
        return;
    }
    // only the engine's main thread is counted
    if let Ok(g) = MAIN_THREAD.lock() {
        if *g != Some(std::thread::current().id()) {
            return;
        }
    }
    if INJECTED_US.load(Ordering::Relaxed) >= 0 {
        GATES_AFTER.fetch_add(1, Ordering::Relaxed);
        if kind == steel::verif::gates::DISPATCH {
            DISPATCH_AFTER.fetch_add(1, Ordering::Relaxed);
        }
        return;
    }
    if KIND_MASK.load(Ordering::Relaxed) & (1u64 << kind) == 0 {
        return;
    }
    let n = ORDINAL.fetch_add(1, Ordering::SeqCst) + 1;
    if n == TARGET.load(Ordering::Relaxed) {
        inject(kind, false);
    }
}

/// arm: count gates of the kinds in `mask` from now on and interrupt at ordinal k; if timed_ms > 0 a watchdog injects after that delay
pub fn plan(k: usize, mask: u64, timed_ms: u64) {
    *MAIN_THREAD.lock().unwrap() = Some(std::thread::current().id());
    TARGET.store(k, Ordering::SeqCst);
    KIND_MASK.store(mask, Ordering::SeqCst);
    ORDINAL.store(0, Ordering::SeqCst);
    INJECTED_AT.store(0, Ordering::SeqCst);
    GATES_AFTER.store(0, Ordering::SeqCst);
    DISPATCH_AFTER.store(0, Ordering::SeqCst);
    INJECTED_US.store(-1, Ordering::SeqCst);
    RETURNED_US.store(-1, Ordering::SeqCst);
    TIMED.store(false, Ordering::SeqCst);
    steel::verif::set_gate(Some(on_gate));
    ACTIVE.store(true, Ordering::SeqCst);
    if timed_ms > 0 {
        std::thread::spawn(move || {
            std::thread::sleep(std::time::Duration::from_millis(timed_ms));
            if ACTIVE.load(Ordering::SeqCst) {
                inject(0, true);
            }
        });
    }
}

/// called by the evaluation server when a run step returns
pub fn note_returned() {
    if ACTIVE.load(Ordering::SeqCst) && RETURNED_US.load(Ordering::SeqCst) < 0 && INJECTED_US.load(Ordering::SeqCst) >= 0 {
        RETURNED_US.store(now_us(), Ordering::SeqCst);
    }
}

pub fn report() -> serde_json::Value {
    ACTIVE.store(false, Ordering::SeqCst);
    let inj = INJECTED_US.load(Ordering::SeqCst);
    let ret = RETURNED_US.load(Ordering::SeqCst);
    serde_json::json!({
        "injected": inj >= 0,
        "at": INJECTED_AT.load(Ordering::SeqCst),
        "kind": INJECTED_KIND.load(Ordering::SeqCst),
        "timed": TIMED.load(Ordering::SeqCst),
        "gates_after": GATES_AFTER.load(Ordering::SeqCst),
        "dispatch_after": DISPATCH_AFTER.load(Ordering::SeqCst),
        "gates_seen": ORDINAL.load(Ordering::SeqCst),
        "latency_us": if inj >= 0 && ret >= 0 { ret - inj } else { -1 },
    })
}

pub fn resume() {
    ACTIVE.store(false, Ordering::SeqCst);
    steel::verif::set_gate(None);
    if let Some(c) = CONTROLLER.get() {
        c.resume();
    }
}
