// C12 driver: reader totality + span sanity + parse/print/parse, enumerated in-process in a forked child.
// request: {"op":"total","alphabet":[..],"sep":"","len":L,"start":i,"end":j}
//          {"op":"roundtrip","texts":[..]}
// response: one JSON object, then {"done":true,"exit":..}
use crate::util::*;
use serde_json::{json, Value};
use std::io::{BufRead, Write};
use std::panic::{catch_unwind, AssertUnwindSafe};
use steel_parser::parser::Parser;

fn nth_string(alpha: &[String], sep: &str, len: usize, mut idx: u64) -> String {
    let a = alpha.len() as u64;
    let mut parts: Vec<&str> = Vec::with_capacity(len);
    for _ in 0..len {
        parts.push(alpha[(idx % a) as usize].as_str());
        idx /= a;
    }
    parts.reverse();
    parts.join(sep)
}

fn span_problem(s: &str, start: usize, end: usize) -> Option<String> {
    if start > end {
        return Some(format!("start {} > end {}", start, end));
    }
    if end > s.len() {
        return Some(format!("end {} > len {}", end, s.len()));
    }
    if !s.is_char_boundary(start) || !s.is_char_boundary(end) {
        return Some(format!("span {}..{} not on a char boundary", start, end));
    }
    None
}

// Span's Debug impl prints "start..end"; every occurrence of ": <digits>..<digits>" in a Debug
// rendering of the AST is a span (fields `span` and `location`).
fn span_at(b: &[u8], i: usize) -> Option<(usize, usize, usize)> {
    // returns (start, end, index after) if b[i..] starts with digits ".." digits
    let mut j = i;
    while j < b.len() && b[j].is_ascii_digit() {
        j += 1;
    }
    if j == i || j + 2 > b.len() || &b[j..j + 2] != b".." {
        return None;
    }
    let mut k = j + 2;
    while k < b.len() && b[k].is_ascii_digit() {
        k += 1;
    }
    if k == j + 2 {
        return None;
    }
    let a = std::str::from_utf8(&b[i..j]).ok()?.parse().ok()?;
    let e = std::str::from_utf8(&b[j + 2..k]).ok()?.parse().ok()?;
    Some((a, e, k))
}

fn spans_in_debug(d: &str) -> Vec<(usize, usize)> {
    let mut out = Vec::new();
    let b = d.as_bytes();
    let mut i = 0;
    let mut in_str = false;
    while i < b.len() {
        if b[i] == b'"' && (i == 0 || b[i - 1] != b'\\') {
            in_str = !in_str;
        }
        if !in_str && i + 2 < b.len() && b[i] == b':' && b[i + 1] == b' ' {
            if let Some((a, e, k)) = span_at(b, i + 2) {
                out.push((a, e));
                i = k;
                continue;
            }
        }
        i += 1;
    }
    out
}

fn strip_spans(d: &str) -> String {
    // remove span payloads and syntax object ids so two ASTs can be compared up to locations
    let mut out = String::with_capacity(d.len());
    let b = d.as_bytes();
    let idpat = b"syntax_object_id: ";
    let mut i = 0;
    while i < b.len() {
        if i + 2 < b.len() && b[i] == b':' && b[i + 1] == b' ' {
            if let Some((_, _, k)) = span_at(b, i + 2) {
                out.push_str(": _");
                i = k;
                continue;
            }
        }
        if i + idpat.len() <= b.len() && &b[i..i + idpat.len()] == idpat {
            out.push_str("syntax_object_id: _");
            let mut j = i + idpat.len();
            while j < b.len() && b[j].is_ascii_digit() {
                j += 1;
            }
            i = j;
            continue;
        }
        let ch_len = utf8_len(b[i]);
        out.push_str(&d[i..i + ch_len]);
        i += ch_len;
    }
    out
}

fn utf8_len(b: u8) -> usize {
    if b < 0x80 {
        1
    } else if b >> 5 == 0b110 {
        2
    } else if b >> 4 == 0b1110 {
        3
    } else {
        4
    }
}

fn check_one(s: &str) -> (u8, Option<String>) {
    // returns (0=ok parse,1=err parse, 2=violation, why)
    let r = catch_unwind(AssertUnwindSafe(|| Parser::parse(s)));
    match r {
        Err(_) => (2, Some(format!("panic in parser: {}", crate::evalsrv::last_panic()))),
        Ok(Ok(exprs)) => {
            let d = format!("{:?}", exprs);
            for (a, e) in spans_in_debug(&d) {
                if let Some(p) = span_problem(s, a, e) {
                    return (2, Some(format!("ast span: {}", p)));
                }
            }
            (0, None)
        }
        Ok(Err(e)) => {
            let sp = e.span();
            if let Some(p) = span_problem(s, sp.start as usize, sp.end as usize) {
                return (2, Some(format!("error span: {} ({})", p, e)));
            }
            (1, None)
        }
    }
}

fn roundtrip_one(t: &str) -> Option<String> {
    let r = catch_unwind(AssertUnwindSafe(|| -> Option<String> {
        let e1 = match Parser::parse(t) {
            Ok(e) => e,
            Err(_) => return None, // not a parsable program: nothing to round-trip
        };
        let d1 = strip_spans(&format!("{:?}", e1));
        for (mode, printed) in [
            ("display", e1.iter().map(|e| e.to_string()).collect::<Vec<_>>().join("\n")),
            ("pretty", e1.iter().map(|e| e.to_pretty(60)).collect::<Vec<_>>().join("\n")),
        ] {
            match Parser::parse(&printed) {
                Err(e) => return Some(format!("{}: printed form {:?} does not parse: {}", mode, printed, e)),
                Ok(e2) => {
                    let d2 = strip_spans(&format!("{:?}", e2));
                    if d1 != d2 {
                        return Some(format!("{}: printed form {:?} parses to a different tree", mode, printed));
                    }
                }
            }
        }
        None
    }));
    match r {
        Ok(x) => x,
        Err(_) => Some("panic".to_string()),
    }
}

pub fn main(_args: &[String]) {
    crate::evalsrv::install_panic_hook();
    let stdin = std::io::stdin();
    let stdout = std::io::stdout();
    {
        let mut o = stdout.lock();
        let _ = writeln!(o, "{}", json!({"ready":true}));
        let _ = o.flush();
    }
    for line in stdin.lock().lines() {
        let line = match line {
            Ok(l) => l,
            Err(_) => break,
        };
        if line.trim().is_empty() {
            continue;
        }
        let req: Value = serde_json::from_str(&line).unwrap_or(Value::Null);
        let timeout = req.get("timeout_ms").and_then(|t| t.as_i64()).unwrap_or(600000) as i32;
        let res = fork_run(timeout, |emit| {
            let op = req.get("op").and_then(|x| x.as_str()).unwrap_or("");
            match op {
                "total" => {
                    let alpha: Vec<String> = req["alphabet"].as_array().unwrap().iter().map(|x| x.as_str().unwrap().to_string()).collect();
                    let sep = req.get("sep").and_then(|x| x.as_str()).unwrap_or("").to_string();
                    let len = req["len"].as_u64().unwrap() as usize;
                    let start = req["start"].as_u64().unwrap();
                    let end = req["end"].as_u64().unwrap();
                    let (mut n, mut ok, mut err) = (0u64, 0u64, 0u64);
                    let mut fails = Vec::new();
                    for i in start..end {
                        let s = nth_string(&alpha, &sep, len, i);
                        // progress marker so that a hard crash can be attributed to one string
                        if i % 4096 == 0 {
                            emit(&json!({"progress": i}).to_string());
                        }
                        let (k, why) = check_one(&s);
                        n += 1;
                        match k {
                            0 => ok += 1,
                            1 => err += 1,
                            _ => {
                                if fails.len() < 50 {
                                    fails.push(json!({"s": s, "why": why}));
                                }
                            }
                        }
                    }
                    emit(&json!({"n": n, "ok": ok, "err": err, "fails": fails}).to_string());
                }
                "roundtrip" => {
                    let mut fails = Vec::new();
                    let mut n = 0u64;
                    let mut parsed = 0u64;
                    for t in req["texts"].as_array().unwrap() {
                        let t = t.as_str().unwrap();
                        n += 1;
                        if Parser::parse(t).is_ok() {
                            parsed += 1;
                        }
                        if let Some(w) = roundtrip_one(t) {
                            fails.push(json!({"s": t, "why": w}));
                        }
                    }
                    emit(&json!({"n": n, "parsed": parsed, "fails": fails}).to_string());
                }
                _ => emit(&json!({"badop": op}).to_string()),
            }
        });
        let mut o = stdout.lock();
        for l in &res.lines {
            let _ = writeln!(o, "{}", l);
        }
        let _ = writeln!(o, "{}", json!({"done":true,"exit":res.exit}));
        let _ = o.flush();
    }
}

pub fn debug_dump(t: &str) {
    let e1 = Parser::parse(t).unwrap();
    println!("D1 {}", strip_spans(&format!("{:?}", e1)));
    let printed = e1.iter().map(|e| e.to_string()).collect::<Vec<_>>().join("\n");
    println!("PRINTED {}", printed);
    println!("PRETTY {}", e1.iter().map(|e| e.to_pretty(60)).collect::<Vec<_>>().join("\n"));
    let e2 = Parser::parse(&printed).unwrap();
    println!("D2 {}", strip_spans(&format!("{:?}", e2)));
}
