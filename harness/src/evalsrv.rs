// Evaluation server: one pristine engine per process, a forked child per batch of cases.
//
// request  (one JSON object per line on stdin):
//   {"cases":[{"id":n,"steps":[<step>...],"env":{..}?}...],"timeout_ms":T}
//   <step> = "scheme text" | {"op":"run","code":".."} | {"op":...}   (see run_step)
// response (one JSON object per line on stdout):
//   {"id":n,"steps":[{"s":"ok","v":[enc..],"out":".."}|{"s":"err","k":kind,"m":msg,"out":".."}|{"s":"panic","m":..}],...}
//   ... one per finished case ..., then {"done":true,"exit":"normal"|"signal:N"|"timeout"|"exit:N"}
use crate::util::*;
use serde_json::{json, Value};
use std::io::{BufRead, Write};
use std::panic::{catch_unwind, AssertUnwindSafe};
use std::sync::Mutex;
use steel::steel_vm::engine::Engine;
use steel::SteelVal;

static PANIC_MSG: Mutex<String> = Mutex::new(String::new());

pub fn install_panic_hook() {
    std::panic::set_hook(Box::new(|info| {
        let loc = info
            .location()
            .map(|l| format!("{}:{}", l.file(), l.line()))
            .unwrap_or_default();
        let msg = if let Some(s) = info.payload().downcast_ref::<&str>() {
            s.to_string()
        } else if let Some(s) = info.payload().downcast_ref::<String>() {
            s.clone()
        } else {
            "?".to_string()
        };
        eprintln!("PANIC: {} @ {}", msg, loc);
        if let Ok(mut g) = PANIC_MSG.lock() {
            *g = format!("{} @ {}", msg, loc);
        }
    }));
}

pub fn last_panic() -> String {
    PANIC_MSG.lock().map(|g| g.clone()).unwrap_or_default()
}

pub fn build_engine(kind: &str) -> Engine {
    let mut e = match kind {
        "base" => Engine::new_base(),
        "sandboxed" => Engine::new_sandboxed(),
        "raw" => Engine::new_raw(),
        _ => Engine::new(),
    };
    crate::evalsrv::register_helpers(&mut e);
    e
}

pub fn register_helpers(e: &mut Engine) {
    use steel::steel_vm::register_fn::RegisterFn;
    // progress mark: survives the death of the child, so a crash or hang is attributed to one call
    e.register_fn("vf-mark", |t: isize| crate::util::child_mark(&t.to_string()));
    e.register_value("#%verif-stack-depth", steel::verif::stack_depth_builtin());
    e.register_value("#%verif-heap-stats", steel::verif::heap_stats_builtin());
}

pub fn enc_result(r: Result<Vec<SteelVal>, steel::SteelErr>, out: String) -> Value {
    match r {
        Ok(vs) => {
            let v: Vec<String> = vs.iter().map(steel::verif::encode).collect();
            json!({"s":"ok","v":v,"out":out})
        }
        Err(e) => {
            json!({"s":"err","k":format!("{:?}", e.kind()),"m":format!("{}", e),"out":out})
        }
    }
}

static mut HOST_ROOTS: Vec<Option<steel::RootedSteelVal>> = Vec::new();

pub fn run_step(engine: &mut Engine, cap: &mut OutCapture, step: &Value) -> Value {
    let (op, code) = match step {
        Value::String(s) => ("run", s.clone()),
        Value::Object(o) => (
            o.get("op").and_then(|x| x.as_str()).unwrap_or("run"),
            o.get("code").and_then(|x| x.as_str()).unwrap_or("").to_string(),
        ),
        _ => ("run", String::new()),
    };
    match op {
        "run" => {
            let r = catch_unwind(AssertUnwindSafe(|| engine.run(code)));
            crate::intr::note_returned();
            let out = cap.take();
            match r {
                Ok(r) => enc_result(r, out),
                Err(_) => {
                    let m = last_panic();
                    json!({"s":"panic","m":m,"out":out})
                }
            }
        }
        "counters" => {
            let v: Vec<usize> = (0..16).map(steel::verif::counter).collect();
            json!({"s":"ok","v":v,"out":""})
        }
        "gcplan" => {
            let on = step.get("on").and_then(|b| b.as_bool()).unwrap_or(true);
            steel::verif::enable_gc_plan(on);
            json!({"s":"ok","v":[on],"out":""})
        }
        "depths" => {
            let (a, b) = steel::verif::stack_depths(engine);
            json!({"s":"ok","v":[a, b],"out":""})
        }
        "symstats" => {
            let t = steel::verif::symbol_map_stats(engine);
            json!({"s":"ok","v":[t.0, t.1, t.2, t.3, t.4],"out":""})
        }
        // C19 (d): the host roots the value of a global in a numbered slot / releases that root
        "root" => {
            let name = step.get("name").and_then(|p| p.as_str()).unwrap_or("");
            let slot = step.get("slot").and_then(|p| p.as_u64()).unwrap_or(0) as usize;
            match engine.extract_value(name) {
                Ok(v) => {
                    let r = v.as_rooted();
                    drop(v);
                    unsafe {
                        let roots = &mut *std::ptr::addr_of_mut!(HOST_ROOTS);
                        while roots.len() <= slot {
                            roots.push(None);
                        }
                        roots[slot] = Some(r);
                    }
                    json!({"s":"ok","v":["rooted"],"out":""})
                }
                Err(e) => json!({"s":"err","k":"root","m":format!("{:?}", e),"out":""}),
            }
        }
        "unroot" => {
            let slot = step.get("slot").and_then(|p| p.as_u64()).unwrap_or(0) as usize;
            let had = unsafe {
                let roots = &mut *std::ptr::addr_of_mut!(HOST_ROOTS);
                if slot < roots.len() { roots[slot].take().is_some() } else { false }
            };
            json!({"s":"ok","v":[had],"out":""})
        }
        "rootval" => {
            // what the host reads through a root it still holds
            let slot = step.get("slot").and_then(|p| p.as_u64()).unwrap_or(0) as usize;
            let v = unsafe {
                let roots = &*std::ptr::addr_of!(HOST_ROOTS);
                roots.get(slot).and_then(|x| x.as_ref()).map(|r| steel::verif::encode(r.value()))
            };
            json!({"s":"ok","v":[v.unwrap_or_else(|| "none".to_string())],"out":""})
        }
        "natives" => json!({"s":"ok","v":steel::verif::native_function_globals(engine),"out":""}),
        "rss" => json!({"s":"ok","v":[rss_hwm_kb()],"out":""}),
        // rewrite a (module) file between two evaluations of one engine
        "writefile" => {
            let path = step.get("path").and_then(|p| p.as_str()).unwrap_or("");
            let text = step.get("text").and_then(|p| p.as_str()).unwrap_or("");
            match std::fs::write(path, text) {
                Ok(()) => json!({"s":"ok","v":[],"out":""}),
                Err(e) => json!({"s":"err","k":"io","m":e.to_string(),"out":""}),
            }
        }
        "sched_arm" => {
            crate::sched::arm(step);
            crate::util::child_mark("777002");
            json!({"s":"ok","v":[],"out":""})
        }
        "sched_report" => {
            let r = crate::sched::report();
            json!({"s":"ok","v":[r],"out":""})
        }
        "int_plan" => {
            crate::intr::set_controller(engine.get_thread_state_controller());
            let k = step.get("k").and_then(|p| p.as_u64()).unwrap_or(0) as usize;
            let mask = step.get("mask").and_then(|p| p.as_u64()).unwrap_or(u64::MAX);
            let timed = step.get("timed_ms").and_then(|p| p.as_u64()).unwrap_or(0);
            crate::intr::plan(k, mask, timed);
            crate::util::child_mark("777001");
            json!({"s":"ok","v":[],"out":""})
        }
        "int_report" => {
            let r = crate::intr::report();
            json!({"s":"ok","v":[r],"out":""})
        }
        "int_resume" => {
            crate::intr::resume();
            json!({"s":"ok","v":[],"out":""})
        }
        "threads" => json!({"s":"ok","v":[thread_count()],"out":""}),
        _ => json!({"s":"badop"}),
    }
}

pub fn run_case(engine: &mut Engine, cap: &mut OutCapture, case: &Value) -> Value {
    if let Some(env) = case.get("env").and_then(|e| e.as_object()) {
        for (k, v) in env {
            match v.as_str() {
                Some(s) => std::env::set_var(k, s),
                None => std::env::remove_var(k),
            }
        }
    }
    let mut results = Vec::new();
    if let Some(steps) = case.get("steps").and_then(|s| s.as_array()) {
        for st in steps {
            let r = run_step(engine, cap, st);
            let panicked = r.get("s").and_then(|s| s.as_str()) == Some("panic");
            results.push(r);
            if panicked && case.get("stop_on_panic").and_then(|b| b.as_bool()).unwrap_or(false) {
                // state after a caught panic may be poisoned: report this case and end the child
                let out = json!({"id": case.get("id").cloned().unwrap_or(Value::Null), "steps": results, "poisoned": true});
                return out;
            }
        }
    }
    json!({"id": case.get("id").cloned().unwrap_or(Value::Null), "steps": results})
}

pub fn main(args: &[String]) {
    let kind = args.first().map(|s| s.as_str()).unwrap_or("new");
    install_panic_hook();
    let mut engine = build_engine(kind);
    let nthreads = thread_count();
    let stdin = std::io::stdin();
    let stdout = std::io::stdout();
    {
        let mut o = stdout.lock();
        let _ = writeln!(o, "{}", json!({"ready":true,"threads":nthreads}));
        let _ = o.flush();
    }
    for line in stdin.lock().lines() {
        let line = match line {
            Ok(l) => l,
            Err(_) => break,
        };
        if line.trim().is_empty() {
            continue;
        }
        let req: Value = match serde_json::from_str(&line) {
            Ok(v) => v,
            Err(e) => {
                let mut o = stdout.lock();
                let _ = writeln!(o, "{}", json!({"done":true,"exit":format!("badreq:{}", e)}));
                let _ = o.flush();
                continue;
            }
        };
        let timeout = req.get("timeout_ms").and_then(|t| t.as_i64()).unwrap_or(10000) as i32;
        let cases: Vec<Value> = req.get("cases").and_then(|c| c.as_array()).cloned().unwrap_or_default();
        if thread_count() != nthreads {
            let mut o = stdout.lock();
            let _ = writeln!(o, "{}", json!({"done":true,"exit":"machinery:parent-thread-count-changed"}));
            let _ = o.flush();
            continue;
        }
        let res = fork_run(timeout, |emit| {
            let mut cap = OutCapture::install();
            for c in &cases {
                let r = run_case(&mut engine, &mut cap, c);
                emit(&r.to_string());
                if r.get("poisoned").is_some() {
                    break;
                }
            }
        });
        let mut o = stdout.lock();
        // keep only the last of each run of consecutive progress marks
        for (i, l) in res.lines.iter().enumerate() {
            if l.starts_with("{\"mark\":") && res.lines.get(i + 1).map(|n| n.starts_with("{\"mark\":")).unwrap_or(false) {
                continue;
            }
            let _ = writeln!(o, "{}", l);
        }
        let _ = writeln!(o, "{}", json!({"done":true,"exit":res.exit}));
        let _ = o.flush();
    }
}
