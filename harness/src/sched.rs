// C15 / C16: controlled scheduler over the gates of hook H7.
//
// Every participating OS thread (the engine thread = 0, threads spawned by the script = 1, 2, ... in spawn order) stops at every gate
// and continues only when it holds the baton.  A scheduling point is the arrival of the baton holder at a gate (or its blocking /
// finishing); the next holder is taken from the replayed choice prefix, after that the default is "the same thread if it can run,
// otherwise the lowest id".  A thread that does not reach its next gate within `block_ms` is blocked inside native code (a lock, a
// join, park): the watchdog takes the baton away from it.  WAIT_CTX and PARK are yield points: a thread that yielded is not chosen
// again before another thread has taken a step, unless nothing else can run.
//
// Recorded for every scheduling point: (holder, enabled set, chosen); the caller enumerates the alternatives (stateless DFS with a
// preemption bound).  Oracle state kept here: per-thread "being scanned" counters (SCAN_BEGIN/SCAN_END name the scanned thread's
// state); a thread passing DISPATCH / SP_LEFT / POLL_LEFT while its counter is non-zero runs while its stack is being inspected.
use serde_json::{json, Value};
use std::collections::HashMap;
use std::sync::atomic::{AtomicBool, Ordering};
use std::sync::{Condvar, Mutex};
use std::thread::ThreadId;
use std::time::{Duration, Instant};
use steel::verif::gates as G;

#[derive(Clone, Copy, PartialEq, Debug)]
enum Status {
    Running,
    AtGate,
    Blocked,
    Finished,
}

struct Part {
    tid: ThreadId,
    ktid: i64, // kernel thread id, for /proc/self/task/<ktid>/stat
    status: Status,
    kind: u32,
    own: usize, // address of the thread's SteelThread when known
    yielded_at: Option<u64>, // progress counter value when it yielded
    steps: u64,
}

struct State {
    parts: Vec<Part>,
    current: Option<usize>,
    last_move: Instant,
    progress: u64,
    choices: Vec<usize>,
    pos: usize,
    points: Vec<Value>,
    scanned: HashMap<usize, i64>,
    violations: Vec<Value>,
    expected: usize,
    horizon: usize,
    block_ms: u64,
    dead_ms: u64,
    report_path: String,
    diverged: Option<String>,
    idle_since: Option<Instant>,
    blocked_events: usize,
    spins: u64,
    sleep_polls: u64,
    spin_since: Option<Instant>,
}

static ENABLED: AtomicBool = AtomicBool::new(false);
static STATE: Mutex<Option<State>> = Mutex::new(None);
static CV: Condvar = Condvar::new();


fn gettid() -> i64 {
    unsafe { libc::syscall(libc::SYS_gettid) as i64 }
}

/// scheduler state of a kernel thread: b'R' running or runnable, b'S' sleeping (blocked in a futex, join, park, ...), 0 if gone
fn thread_state(ktid: i64) -> u8 {
    match std::fs::read(format!("/proc/self/task/{}/stat", ktid)) {
        Ok(buf) => match buf.iter().rposition(|&c| c == b')') {
            Some(i) if i + 2 < buf.len() => buf[i + 2],
            _ => 0,
        },
        Err(_) => 0,
    }
}

/// threads that were blocked in native code and have been woken by the last step run uncontrolled until their next gate: wait for
/// them (they either arrive at a gate or go back to sleep), so that the set of enabled threads does not depend on timing
fn settle(mut guard: std::sync::MutexGuard<'static, Option<State>>) -> std::sync::MutexGuard<'static, Option<State>> {
    let t0 = Instant::now();
    loop {
        let unsettled = {
            let st = guard.as_ref().unwrap();
            st.parts.iter().any(|p| p.status == Status::Blocked && thread_state(p.ktid) == b'R')
        };
        if !unsettled || t0.elapsed() > Duration::from_millis(2000) || !ENABLED.load(Ordering::Relaxed) {
            return guard;
        }
        drop(guard);
        std::thread::sleep(Duration::from_micros(100));
        guard = STATE.lock().unwrap();
    }
}

fn is_yield(kind: u32) -> bool {
    kind == G::WAIT_CTX || kind == G::PARK
}

fn kind_name(k: u32) -> &'static str {
    match k {
        1 => "dispatch",
        2 => "sp-publish",
        3 => "sp-finished",
        4 => "park",
        5 => "sp-retract",
        6 => "sp-left",
        7 => "poll-publish",
        8 => "poll-retract",
        9 => "poll-left",
        10 => "stop-begin",
        11 => "stop-victim",
        12 => "wait-ctx",
        13 => "scan-begin",
        14 => "scan-end",
        15 => "resume-begin",
        16 => "resume-victim",
        17 => "threads-lock",
        18 => "thread-start",
        19 => "thread-exit",
        20 => "spawned",
        _ => "?",
    }
}

/// choose the next baton holder; called with the state locked, by the arriving holder, by an arriving thread when nobody holds the
/// baton, or by the watchdog
fn schedule_next(st: &mut State) {
    let cur = st.current;
    // enabled = threads waiting at a gate; a yielded thread only if somebody else moved since
    let mut enabled: Vec<usize> = Vec::new();
    let mut yielded_only: Vec<usize> = Vec::new();
    for (i, p) in st.parts.iter().enumerate() {
        if p.status == Status::AtGate {
            match p.yielded_at {
                Some(at) if at == st.progress => yielded_only.push(i),
                _ => enabled.push(i),
            }
        }
    }
    if enabled.is_empty() {
        if yielded_only.is_empty() {
            st.current = None;
            return;
        }
        // only spinners can run: let the lowest spin (not a choice point); the watchdog decides about livelock
        st.spins += 1;
        if st.spin_since.is_none() {
            st.spin_since = Some(Instant::now());
        }
        let c = yielded_only[0];
        st.current = Some(c);
        st.parts[c].yielded_at = None;
        st.last_move = Instant::now();
        return;
    }
    st.spin_since = None;
    // canonical order: the holder first if it can continue, then ascending ids
    if let Some(c) = cur {
        if let Some(ix) = enabled.iter().position(|&x| x == c) {
            enabled.remove(ix);
            enabled.insert(0, c);
        }
    }
    let chosen_ix = if enabled.len() == 1 {
        0
    } else if st.pos < st.choices.len() {
        let want = st.choices[st.pos];
        match enabled.iter().position(|&x| x == want) {
            Some(ix) => ix,
            None => {
                if st.diverged.is_none() {
                    st.diverged = Some(format!("choice {} wants thread {} but enabled = {:?}", st.pos, want, enabled));
                }
                0
            }
        }
    } else {
        0
    };
    if enabled.len() > 1 {
        let kinds: Vec<&str> = enabled.iter().map(|&i| kind_name(st.parts[i].kind)).collect();
        st.points.push(json!({"cur": cur, "cur_enabled": cur.map(|c| enabled[0] == c).unwrap_or(false), "enabled": enabled, "kinds": kinds, "chosen": enabled[chosen_ix]}));
        st.pos += 1;
    }
    let c = enabled[chosen_ix];
    st.current = Some(c);
    st.last_move = Instant::now();
}

fn on_gate(kind: u32, arg: usize) {
    if !ENABLED.load(Ordering::Relaxed) {
        return;
    }
    let tid = std::thread::current().id();
    let mut guard = STATE.lock().unwrap();
    let me = {
        let st = match guard.as_mut() {
            Some(s) => s,
            None => return,
        };
        match st.parts.iter().position(|p| p.tid == tid) {
            Some(i) => i,
            None => {
                if kind != G::THREAD_START {
                    return; // a thread outside the experiment
                }
                st.parts.push(Part { tid, ktid: gettid(), status: Status::Running, kind, own: arg, yielded_at: None, steps: 0 });
                CV.notify_all();
                st.parts.len() - 1
            }
        }
    };
    // the spawning thread waits until the new thread has arrived at THREAD_START: from here on both are under control
    if kind == G::SPAWNED {
        let want = {
            let st = guard.as_mut().unwrap();
            st.expected += 1;
            st.expected
        };
        let t0 = Instant::now();
        loop {
            let st = guard.as_mut().unwrap();
            let arrived = st.parts.len() > want && st.parts[want].status == Status::AtGate;
            if arrived || t0.elapsed() > Duration::from_secs(5) || !ENABLED.load(Ordering::Relaxed) {
                break;
            }
            st.last_move = Instant::now(); // not a native block
            guard = CV.wait_timeout(guard, Duration::from_millis(2)).unwrap().0;
        }
    }
    {
        let st = guard.as_mut().unwrap();
        // ---- oracle: scan windows
        match kind {
            G::SCAN_BEGIN => {
                *st.scanned.entry(arg).or_insert(0) += 1;
            }
            G::SCAN_END => {
                *st.scanned.entry(arg).or_insert(0) -= 1;
            }
            G::DISPATCH | G::SP_LEFT | G::POLL_LEFT => {
                if arg != 0 {
                    st.parts[me].own = arg;
                }
                if st.scanned.get(&arg).copied().unwrap_or(0) > 0 && st.violations.len() < 8 {
                    let at = st.points.len();
                    st.violations.push(json!({"class": "scan-overlap", "thread": me, "gate": kind_name(kind), "after_point": at}));
                }
            }
            G::SP_PUBLISH | G::SP_FINISHED | G::SP_RETRACT | G::POLL_PUBLISH | G::POLL_RETRACT | G::THREAD_START => {
                if arg != 0 {
                    st.parts[me].own = arg;
                }
            }
            _ => {}
        }
        st.parts[me].steps += 1;
        st.progress += 1;
        // a thread is spinning when it arrives at the same yield gate twice in a row
        let spinning = is_yield(kind) && st.parts[me].kind == kind;
        st.parts[me].kind = kind;
        if kind == G::THREAD_EXIT {
            st.parts[me].status = Status::Finished;
            if st.current == Some(me) || st.current.is_none() {
                st.current = None;
                schedule_next(st);
            }
            CV.notify_all();
            return;
        }
        st.parts[me].status = Status::AtGate;
        st.parts[me].yielded_at = if spinning { Some(st.progress) } else { None };
        if st.points.len() >= st.horizon {
            // horizon: let everything run freely from here
            ENABLED.store(false, Ordering::SeqCst);
            CV.notify_all();
            return;
        }
    }
    let holder = {
        let st = guard.as_ref().unwrap();
        st.current == Some(me) || st.current.is_none()
    };
    if holder {
        guard = settle(guard);
        let st = guard.as_mut().unwrap();
        if st.current == Some(me) || st.current.is_none() {
            schedule_next(st);
            CV.notify_all();
        }
    }
    loop {
        if !ENABLED.load(Ordering::Relaxed) {
            return;
        }
        {
            let st = guard.as_mut().unwrap();
            if st.current == Some(me) {
                st.parts[me].status = Status::Running;
                st.last_move = Instant::now();
                return;
            }
        }
        guard = CV.wait_timeout(guard, Duration::from_millis(50)).unwrap().0;
    }
}

fn snapshot(st: &State, outcome: &str) -> Value {
    let threads: Vec<Value> = st
        .parts
        .iter()
        .enumerate()
        .map(|(i, p)| json!({"id": i, "status": format!("{:?}", p.status), "last_gate": kind_name(p.kind), "steps": p.steps}))
        .collect();
    json!({"outcome": outcome, "points": st.points, "violations": st.violations, "threads": threads, "diverged": st.diverged,
           "blocked_events": st.blocked_events, "spins": st.spins, "choices_used": st.pos})
}

fn watchdog() {
    loop {
        std::thread::sleep(Duration::from_millis(1));
        if !ENABLED.load(Ordering::Relaxed) {
            return;
        }
        let mut guard = STATE.lock().unwrap();
        let st = match guard.as_mut() {
            Some(s) => s,
            None => return,
        };
        let now = Instant::now();
        match st.current {
            Some(c) => {
                // the holder is blocked in native code when its kernel thread sleeps for several consecutive polls
                if st.parts[c].status == Status::Running && thread_state(st.parts[c].ktid) != b'R' {
                    st.sleep_polls += 1;
                } else {
                    st.sleep_polls = 0;
                }
                if st.sleep_polls >= st.block_ms {
                    st.sleep_polls = 0;
                    st.parts[c].status = Status::Blocked;
                    st.blocked_events += 1;
                    st.progress += 1;
                    st.current = None;
                    drop(guard);
                    let mut guard = settle(STATE.lock().unwrap());
                    if let Some(st) = guard.as_mut() {
                        if st.current.is_none() {
                            schedule_next(st);
                            CV.notify_all();
                        }
                    }
                    continue;
                }
                if st.spin_since.map(|t| now.duration_since(t) > Duration::from_millis(st.dead_ms)).unwrap_or(false) {
                    // only spinners have been runnable for thousands of rounds
                    let rep = snapshot(st, "livelock");
                    let _ = std::fs::write(&st.report_path, rep.to_string());
                    unsafe { libc::_exit(3) };
                }
                st.idle_since = None;
            }
            None => {
                if st.parts.iter().any(|p| p.status == Status::AtGate) {
                    schedule_next(st);
                    CV.notify_all();
                    st.idle_since = None;
                } else if st.parts.iter().all(|p| p.status == Status::Finished) {
                    st.idle_since = None;
                } else {
                    // nobody can be scheduled: threads are blocked in native code; if that lasts, it is a deadlock
                    let since = *st.idle_since.get_or_insert(now);
                    if now.duration_since(since) > Duration::from_millis(st.dead_ms) {
                        let rep = snapshot(st, "deadlock");
                        let _ = std::fs::write(&st.report_path, rep.to_string());
                        unsafe { libc::_exit(3) };
                    }
                }
            }
        }
    }
}

pub fn arm(step: &Value) {
    let choices: Vec<usize> = step
        .get("choices")
        .and_then(|c| c.as_array())
        .map(|a| a.iter().filter_map(|x| x.as_u64().map(|v| v as usize)).collect())
        .unwrap_or_default();
    let st = State {
        parts: vec![Part { tid: std::thread::current().id(), ktid: gettid(), status: Status::Running, kind: 0, own: 0, yielded_at: None, steps: 0 }],
        current: Some(0),
        last_move: Instant::now(),
        progress: 0,
        choices,
        pos: 0,
        points: Vec::new(),
        scanned: HashMap::new(),
        violations: Vec::new(),
        expected: 0,
        horizon: step.get("horizon").and_then(|x| x.as_u64()).unwrap_or(4000) as usize,
        block_ms: step.get("block_ms").and_then(|x| x.as_u64()).unwrap_or(5),
        dead_ms: step.get("dead_ms").and_then(|x| x.as_u64()).unwrap_or(1500),
        report_path: step.get("report_path").and_then(|x| x.as_str()).unwrap_or("/dev/null").to_string(),
        diverged: None,
        idle_since: None,
        blocked_events: 0,
        spins: 0,
        sleep_polls: 0,
        spin_since: None,
    };
    *STATE.lock().unwrap() = Some(st);
    steel::verif::set_gate(Some(on_gate));
    ENABLED.store(true, Ordering::SeqCst);
    std::thread::spawn(watchdog);
}

/// the engine thread left the controlled evaluation: release everybody and return the trace
pub fn report() -> Value {
    ENABLED.store(false, Ordering::SeqCst);
    CV.notify_all();
    steel::verif::set_gate(None);
    let guard = STATE.lock().unwrap();
    match guard.as_ref() {
        Some(st) => snapshot(st, "completed"),
        None => json!({"outcome": "not-armed"}),
    }
}
