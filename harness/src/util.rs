use std::io::{Read, Write};
use std::os::unix::io::FromRawFd;

pub fn thread_count() -> usize {
    std::fs::read_dir("/proc/self/task").map(|d| d.count()).unwrap_or(0)
}

/// stdout capture: fd 1 is redirected to a memfd; `take()` returns what was
/// written since the previous call.
pub struct OutCapture {
    fd: i32,
    off: i64,
}

impl OutCapture {
    pub fn install() -> OutCapture {
        unsafe {
            let name = b"svh-out\0";
            let fd = libc::memfd_create(name.as_ptr() as *const libc::c_char, 0);
            assert!(fd >= 0);
            libc::dup2(fd, 1);
            OutCapture { fd, off: 0 }
        }
    }
    pub fn take(&mut self) -> String {
        let _ = std::io::stdout().flush();
        let mut buf = Vec::new();
        unsafe {
            let end = libc::lseek(self.fd, 0, libc::SEEK_END);
            let n = (end - self.off).max(0) as usize;
            let n = n.min(1 << 20);
            buf.resize(n, 0u8);
            let r = libc::pread(self.fd, buf.as_mut_ptr() as *mut libc::c_void, n, self.off);
            if r >= 0 {
                buf.truncate(r as usize);
            } else {
                buf.clear();
            }
            self.off = end;
            // keep fd 1 appending at the end
            libc::lseek(self.fd, 0, libc::SEEK_END);
        }
        String::from_utf8_lossy(&buf).into_owned()
    }
}

/// fd of the result pipe inside a forked child (for progress marks written by host functions)
pub static CHILD_PIPE_FD: std::sync::atomic::AtomicI32 = std::sync::atomic::AtomicI32::new(-1);

pub fn child_mark(text: &str) {
    let fd = CHILD_PIPE_FD.load(std::sync::atomic::Ordering::Relaxed);
    if fd >= 0 {
        let line = format!("{{\"mark\":{}}}\n", text);
        unsafe {
            libc::write(fd, line.as_ptr() as *const libc::c_void, line.len());
        }
    }
}

pub struct ChildResult {
    pub lines: Vec<String>,
    pub exit: String,
}

/// Fork; run `f` in the child with a writer for result lines; collect the lines in the
/// parent with an inactivity timeout per line. The child never returns.
pub fn fork_run<F: FnOnce(&mut dyn FnMut(&str))>(timeout_ms: i32, f: F) -> ChildResult {
    let _ = std::io::stdout().flush();
    let mut fds = [0i32; 2];
    unsafe {
        assert_eq!(libc::pipe(fds.as_mut_ptr()), 0);
        let pid = libc::fork();
        assert!(pid >= 0, "fork failed");
        if pid == 0 {
            libc::close(fds[0]);
            // the child must never read the protocol stream: stdin := /dev/null
            let devnull = libc::open(b"/dev/null\0".as_ptr() as *const libc::c_char, libc::O_RDONLY);
            if devnull >= 0 {
                libc::dup2(devnull, 0);
            }
            if let Ok(lim) = std::env::var("SVH_CHILD_AS_MB") {
                if let Ok(mb) = lim.parse::<u64>() {
                    let r = libc::rlimit { rlim_cur: mb << 20, rlim_max: mb << 20 };
                    libc::setrlimit(libc::RLIMIT_AS, &r);
                }
            }
            CHILD_PIPE_FD.store(fds[1], std::sync::atomic::Ordering::Relaxed);
            let mut w = std::fs::File::from_raw_fd(fds[1]);
            {
                let mut emit = |s: &str| {
                    let _ = w.write_all(s.as_bytes());
                    let _ = w.write_all(b"\n");
                    let _ = w.flush();
                };
                f(&mut emit);
            }
            let _ = w.flush();
            libc::_exit(0);
        }
        libc::close(fds[1]);
        let mut r = std::fs::File::from_raw_fd(fds[0]);
        let mut acc: Vec<u8> = Vec::new();
        let mut timed_out = false;
        loop {
            let mut p = libc::pollfd { fd: fds[0], events: libc::POLLIN, revents: 0 };
            let rc = libc::poll(&mut p, 1, timeout_ms);
            if rc == 0 {
                timed_out = true;
                break;
            }
            if rc < 0 {
                let e = *libc::__errno_location();
                if e == libc::EINTR {
                    continue;
                }
                break;
            }
            let mut buf = [0u8; 65536];
            match r.read(&mut buf) {
                Ok(0) => break,
                Ok(n) => acc.extend_from_slice(&buf[..n]),
                Err(_) => break,
            }
        }
        let mut status = 0i32;
        if timed_out {
            libc::kill(pid, libc::SIGKILL);
        }
        libc::waitpid(pid, &mut status, 0);
        let exit = if timed_out {
            "timeout".to_string()
        } else if libc::WIFSIGNALED(status) {
            format!("signal:{}", libc::WTERMSIG(status))
        } else if libc::WIFEXITED(status) && libc::WEXITSTATUS(status) == 0 {
            "normal".to_string()
        } else {
            format!("exit:{}", libc::WEXITSTATUS(status))
        };
        let text = String::from_utf8_lossy(&acc).into_owned();
        let mut lines: Vec<String> = text.split('\n').map(|s| s.to_string()).collect();
        // drop trailing partial / empty line
        if let Some(last) = lines.last() {
            if last.is_empty() || !text.ends_with('\n') {
                lines.pop();
            }
        }
        ChildResult { lines, exit }
    }
}

pub fn rss_hwm_kb() -> u64 {
    let s = std::fs::read_to_string("/proc/self/status").unwrap_or_default();
    for l in s.lines() {
        if let Some(r) = l.strip_prefix("VmHWM:") {
            return r.trim().trim_end_matches("kB").trim().parse().unwrap_or(0);
        }
    }
    0
}
