// steel-verif-harness: thin drivers around the real steel engine.
// All enumeration / reference models / verdicts live in /verif/vp (Python),
// except the schedule explorers, which drive real threads and live here.
mod evalsrv;
mod hostsrv;
mod intr;
mod parsesrv;
mod rcmc;
mod sched;
mod util;

fn main() {
    let args: Vec<String> = std::env::args().collect();
    let driver = args.get(1).map(|s| s.as_str()).unwrap_or("");
    let rest = &args[2.min(args.len())..];
    match driver {
        "eval" => evalsrv::main(rest),
        "parse" => parsesrv::main(rest),
        "host" => hostsrv::main(rest),
        "rcmc" => rcmc::main(rest),
        "parsedump" => parsesrv::debug_dump(&rest[0]),
        _ => {
            eprintln!("usage: svh <eval> ...");
            std::process::exit(2);
        }
    }
}
