// C20 driver: the host boundary, enumerated on the Rust side in a forked child.
// One request {"op":"all"} -> {"checks": n, "cells": [...], "fails":[{"part","what","want","got"}..]}
use crate::util::*;
use serde_json::{json, Value};
use std::io::{BufRead, Write};
use std::sync::atomic::{AtomicUsize, Ordering};
use steel::gc::unsafe_erased_pointers::CustomReference;
use steel::rvals::{FromSteelVal, IntoSteelVal};
use steel::steel_vm::engine::Engine;
use steel::steel_vm::register_fn::RegisterFn;
use steel::SteelVal;

static ENTERED: AtomicUsize = AtomicUsize::new(0);

struct Out {
    checks: usize,
    fails: Vec<Value>,
    cells: Vec<String>,
}

impl Out {
    fn check(&mut self, part: &str, what: String, want: String, got: String) {
        self.checks += 1;
        if want != got {
            self.fails.push(json!({"part": part, "what": what, "want": want, "got": got}));
        }
    }
}

fn run1(e: &mut Engine, code: &str) -> Result<String, String> {
    match std::panic::catch_unwind(std::panic::AssertUnwindSafe(|| e.run(code.to_string()))) {
        Ok(Ok(v)) => Ok(v.last().map(steel::verif::encode).unwrap_or_else(|| "(void)".to_string())),
        Ok(Err(_)) => Err("ERR".to_string()),
        Err(_) => Err("PANIC".to_string()),
    }
}

fn show(r: Result<String, String>) -> String {
    match r {
        Ok(s) => s,
        Err(s) => s,
    }
}

fn enc_int(v: i128) -> String {
    if v >= i64::MIN as i128 && v <= i64::MAX as i128 {
        format!("(i {})", v)
    } else {
        format!("(big {})", v)
    }
}

// ---- (a) integer conversions: script -> host (identity function) and host -> script -> host
macro_rules! int_type {
    ($out:expr, $e:expr, $t:ty, $name:expr) => {{
        let fname: &'static str = Box::leak(format!("id-{}", $name).into_boxed_str());
        $e.register_fn(fname, |x: $t| -> $t {
            ENTERED.fetch_add(1, Ordering::SeqCst);
            x
        });
        let (lo, hi) = (<$t>::MIN as i128, <$t>::MAX as i128);
        let mut vals: Vec<i128> = vec![lo, lo + 1, -1, 0, 1, hi - 1, hi, lo - 1, hi + 1, i64::MIN as i128, i64::MAX as i128, (i64::MAX as i128) + 1,
                                       (i64::MIN as i128) - 1, u64::MAX as i128, (u64::MAX as i128) + 1, i32::MIN as i128 - 1, i32::MAX as i128 + 1,
                                       256, 65536, -129, 1 << 40];
        vals.sort();
        vals.dedup();
        for v in vals {
            let before = ENTERED.load(Ordering::SeqCst);
            let got = show(run1($e, &format!("({} {})", fname, v)));
            let entered = ENTERED.load(Ordering::SeqCst) - before;
            let in_range = v >= lo && v <= hi;
            let want = if in_range { enc_int(v) } else { "ERR".to_string() };
            $out.check("a-script-to-host", format!("({} {}) [{}]", fname, v, $name), want, got);
            $out.check("a-entered", format!("host fn {} entered for argument {}", fname, v), (if in_range { 1 } else { 0 }).to_string(), entered.to_string());
        }
        // host -> script -> host for the type's own boundary values
        for v in [<$t>::MIN, <$t>::MAX, 0 as $t, 1 as $t] {
            let name: &'static str = Box::leak(format!("hv-{}", $name).into_boxed_str());
            match v.into_steelval() {
                Ok(sv) => {
                    $e.register_value(name, sv);
                    let seen = show(run1($e, name));
                    $out.check("a-host-to-script", format!("{} {} as seen by the script", $name, v), enc_int(v as i128), seen);
                    let back = $e.extract::<$t>(name).map(|x| x.to_string()).unwrap_or_else(|_| "ERR".to_string());
                    $out.check("a-round-trip", format!("{} {} extracted back", $name, v), v.to_string(), back);
                }
                Err(_) => $out.check("a-host-to-script", format!("{} {} into_steelval", $name, v), "ok".to_string(), "ERR".to_string()),
            }
        }
        $out.cells.push(format!("int:{}", $name));
    }};
}

fn part_a(out: &mut Out, e: &mut Engine) {
    int_type!(out, e, i8, "i8");
    int_type!(out, e, u8, "u8");
    int_type!(out, e, i16, "i16");
    int_type!(out, e, u16, "u16");
    int_type!(out, e, i32, "i32");
    int_type!(out, e, u32, "u32");
    int_type!(out, e, i64, "i64");
    int_type!(out, e, u64, "u64");
    int_type!(out, e, isize, "isize");
    int_type!(out, e, usize, "usize");
    // u128 only converts host -> script
    for v in [0u128, 1, (1u128 << 63) - 1, 1u128 << 63, (1u128 << 63) + 1, u64::MAX as u128 - 1, u64::MAX as u128, 1u128 << 64, (1u128 << 64) + 1, u128::MAX] {
        match v.into_steelval() {
            Ok(sv) => {
                e.register_value("hv-u128", sv);
                let seen = show(run1(e, "hv-u128"));
                let want = if v <= i64::MAX as u128 { format!("(i {})", v) } else { format!("(big {})", v) };
                out.check("a-host-to-script", format!("u128 {} as seen by the script", v), want, seen);
            }
            Err(_) => out.check("a-host-to-script", format!("u128 {} into_steelval", v), "ok".to_string(), "ERR".to_string()),
        }
    }
    out.cells.push("int:u128".to_string());
    // wrong kinds for an integer parameter
    for lit in ["1.5", "1/2", "\"1\"", "#\\a", "'()", "#t", "(list 1)", "1.0"] {
        let before = ENTERED.load(Ordering::SeqCst);
        let got = show(run1(e, &format!("(id-i32 {})", lit)));
        out.check("a-kind", format!("(id-i32 {})", lit), "ERR".to_string(), got);
        out.check("a-entered", format!("id-i32 entered for {}", lit), "0".to_string(), (ENTERED.load(Ordering::SeqCst) - before).to_string());
    }
    // floats
    e.register_fn("id-f64", |x: f64| -> f64 { x });
    e.register_fn("id-f32", |x: f32| -> f32 { x });
    for (lit, bits) in [("1.5", 1.5f64), ("-0.0", -0.0), ("+inf.0", f64::INFINITY), ("-inf.0", f64::NEG_INFINITY), ("5e-324", 5e-324),
                        ("1.7976931348623157e308", f64::MAX), ("0.1", 0.1)] {
        let got = show(run1(e, &format!("(id-f64 {})", lit)));
        out.check("a-f64", format!("(id-f64 {})", lit), format!("(f64 {:016x})", bits.to_bits()), got);
        // f32: either the exact value comes back (representable) or an error; never a different number
        let got32 = show(run1(e, &format!("(id-f32 {})", lit)));
        let exact = (bits as f32) as f64 == bits || bits.is_infinite();
        if exact {
            out.check("a-f32", format!("(id-f32 {})", lit), format!("(f64 {:016x})", ((bits as f32) as f64).to_bits()), got32);
        } else if (bits as f32).is_infinite() {
            // a finite double beyond the f32 range must not silently become an infinity (rounding inside the range is accepted)
            let ok = got32 == "ERR";
            out.check("a-f32-range", format!("(id-f32 {}) is outside the f32 range", lit), "ERR".to_string(), if ok { "ERR".to_string() } else { got32 });
        }
    }
    let nan = show(run1(e, "(nan? (id-f64 +nan.0))"));
    out.check("a-f64", "(nan? (id-f64 +nan.0))".to_string(), "#t".to_string(), nan);
    for lit in ["1", "1/2", "\"x\""] {
        let got = show(run1(e, &format!("(id-f64 {})", lit)));
        // an exact integer/rational handed to an f64 parameter: converting or rejecting are both faithful; a string must be rejected
        if lit == "\"x\"" {
            out.check("a-kind", format!("(id-f64 {})", lit), "ERR".to_string(), got);
        }
    }
    // bool / char / string / unit / option / vec / map / set / tuple
    e.register_fn("id-bool", |x: bool| -> bool { x });
    e.register_fn("id-char", |x: char| -> char { x });
    e.register_fn("id-string", |x: String| -> String { x });
    e.register_fn("id-opt", |x: Option<i64>| -> Option<i64> { x });
    e.register_fn("id-vec", |x: Vec<i64>| -> Vec<i64> { x });
    e.register_fn("id-vecstr", |x: Vec<String>| -> Vec<String> { x });
    e.register_fn("id-pair", |x: (i64, String)| -> (i64, String) { x });
    e.register_fn("id-map", |x: std::collections::HashMap<String, i64>| -> std::collections::HashMap<String, i64> { x });
    e.register_fn("id-set", |x: std::collections::HashSet<i64>| -> std::collections::HashSet<i64> { x });
    e.register_fn("res-ok", |x: i64| -> Result<i64, String> { Ok(x) });
    e.register_fn("res-err", |x: i64| -> Result<i64, String> { Err(format!("no {}", x)) });
    let cases: Vec<(&str, &str)> = vec![
        ("(id-bool #t)", "#t"), ("(id-bool #f)", "#f"), ("(id-bool 0)", "ERR"), ("(id-bool '())", "ERR"),
        ("(id-char #\\a)", "(chr 97)"), ("(id-char (integer->char 1114111))", "(chr 1114111)"), ("(id-char #\\λ)", "(chr 955)"), ("(id-char \"a\")", "ERR"),
        ("(id-char 97)", "ERR"), ("(id-string \"\")", "(str \"\")"), ("(id-string \"λ\\u{1F600}\")", "(str \"λ\u{1F600}\")"), ("(id-string 5)", "ERR"),
        ("(id-string #\\a)", "ERR"), ("(id-opt 5)", "(i 5)"), ("(id-opt #f)", "#f"), ("(id-opt \"x\")", "ERR"),
        ("(id-vec (list 1 2 3))", "(lst (i 1) (i 2) (i 3))"), ("(id-vec (list))", "(lst)"), ("(id-vec (list 1 \"x\"))", "ERR"), ("(id-vec 5)", "ERR"),
        ("(id-vec (list 1 9223372036854775808))", "ERR"), ("(id-vecstr (list \"a\" \"λ\"))", "(lst (str \"a\") (str \"λ\"))"),
        ("(id-pair (list 1 \"a\"))", "(lst (i 1) (str \"a\"))"), ("(id-pair (list \"a\" 1))", "ERR"), ("(id-pair (list 1 \"a\" 2))", "ERR"), ("(id-pair (list 1))", "ERR"),
        ("(id-map (hash \"a\" 1 \"b\" 2))", "(hash ((str \"a\") (i 1)) ((str \"b\") (i 2)))"), ("(id-map (hash \"a\" \"x\"))", "ERR"), ("(id-map (hash 1 1))", "ERR"),
        ("(id-set (hashset 1 2))", "(hset (i 1) (i 2))"), ("(id-set (hashset \"a\"))", "ERR"),
        ("(res-ok 5)", "(i 5)"), ("(res-err 5)", "ERR"),
    ];
    for (code, want) in cases {
        let got = show(run1(e, code));
        out.check("a-kinds", code.to_string(), want.to_string(), got);
    }
    out.cells.push("kinds".to_string());
}

// ---- (b) call protocol: arity and kinds of every call shape
fn part_b(out: &mut Out, e: &mut Engine) {
    e.register_fn("f0", || -> i64 {
        ENTERED.fetch_add(1, Ordering::SeqCst);
        0
    });
    e.register_fn("f1", |a: i64| -> i64 {
        ENTERED.fetch_add(1, Ordering::SeqCst);
        a
    });
    e.register_fn("f2", |a: i64, b: String| -> i64 {
        ENTERED.fetch_add(1, Ordering::SeqCst);
        a + b.len() as i64
    });
    e.register_fn("f3", |a: i64, b: String, c: bool| -> i64 {
        ENTERED.fetch_add(1, Ordering::SeqCst);
        a + b.len() as i64 + c as i64
    });
    let vals = ["1", "\"s\"", "#t", "1.5", "'()", "(list 1)", "#\\a", "9223372036854775808", "void"];
    let sigs: Vec<(&str, Vec<&str>)> = vec![("f0", vec![]), ("f1", vec!["int"]), ("f2", vec!["int", "str"]), ("f3", vec!["int", "str", "bool"])];
    let kind = |v: &str| match v {
        "1" => "int",
        "\"s\"" => "str",
        "#t" => "bool",
        _ => "other",
    };
    for (f, sig) in &sigs {
        for n in 0..=sig.len() + 1 {
            // every argument tuple of length n over the value alphabet
            let mut idx = vec![0usize; n];
            loop {
                let args: Vec<&str> = idx.iter().map(|i| vals[*i]).collect();
                let ok = n == sig.len() && args.iter().zip(sig.iter()).all(|(a, k)| kind(a) == *k);
                for shape in 0..2 {
                    let code = if shape == 0 { format!("({} {})", f, args.join(" ")) } else { format!("(apply {} (list {}))", f, args.join(" ")) };
                    let before = ENTERED.load(Ordering::SeqCst);
                    let r = run1(e, &code);
                    let entered = ENTERED.load(Ordering::SeqCst) - before;
                    out.check("b-status", code.clone(), (if ok { "ok" } else { "ERR" }).to_string(),
                              match &r { Ok(_) => "ok".to_string(), Err(x) => x.clone() });
                    out.check("b-entered", format!("host body of {} entered by {}", f, code), (if ok { 1 } else { 0 }).to_string(), entered.to_string());
                }
                // next tuple
                let mut k = 0;
                while k < n {
                    idx[k] += 1;
                    if idx[k] < vals.len() {
                        break;
                    }
                    idx[k] = 0;
                    k += 1;
                }
                if k == n {
                    break;
                }
            }
        }
    }
    out.cells.push("call-protocol".to_string());
}


// ---- (d) argument routing: a host function of every arity 0..16 (plain, &self method, &mut self method) must receive the k-th
//          argument of the call in its k-th parameter – distinct values per position, also through apply
static ROUTED: std::sync::Mutex<Vec<i64>> = std::sync::Mutex::new(Vec::new());
#[derive(Clone)]
struct Rec {
    tag: i64,
}
impl steel::rvals::Custom for Rec {}

fn part_d(out: &mut Out, e: &mut Engine) {
    e.register_fn("make-rec", || Rec { tag: 7 });

    e.register_fn("route0", || -> i64 { *ROUTED.lock().unwrap() = vec![]; 0 });
    e.register_fn("route1", |a: i64| -> i64 { *ROUTED.lock().unwrap() = vec![a]; 1 });
    e.register_fn("route2", |a: i64, b: i64| -> i64 { *ROUTED.lock().unwrap() = vec![a, b]; 2 });
    e.register_fn("route3", |a: i64, b: i64, c: i64| -> i64 { *ROUTED.lock().unwrap() = vec![a, b, c]; 3 });
    e.register_fn("route4", |a: i64, b: i64, c: i64, d: i64| -> i64 { *ROUTED.lock().unwrap() = vec![a, b, c, d]; 4 });
    e.register_fn("route5", |a: i64, b: i64, c: i64, d: i64, e: i64| -> i64 { *ROUTED.lock().unwrap() = vec![a, b, c, d, e]; 5 });
    e.register_fn("route6", |a: i64, b: i64, c: i64, d: i64, e: i64, f: i64| -> i64 { *ROUTED.lock().unwrap() = vec![a, b, c, d, e, f]; 6 });
    e.register_fn("route7", |a: i64, b: i64, c: i64, d: i64, e: i64, f: i64, g: i64| -> i64 { *ROUTED.lock().unwrap() = vec![a, b, c, d, e, f, g]; 7 });
    e.register_fn("route8", |a: i64, b: i64, c: i64, d: i64, e: i64, f: i64, g: i64, h: i64| -> i64 { *ROUTED.lock().unwrap() = vec![a, b, c, d, e, f, g, h]; 8 });
    e.register_fn("route9", |a: i64, b: i64, c: i64, d: i64, e: i64, f: i64, g: i64, h: i64, i: i64| -> i64 { *ROUTED.lock().unwrap() = vec![a, b, c, d, e, f, g, h, i]; 9 });
    e.register_fn("route10", |a: i64, b: i64, c: i64, d: i64, e: i64, f: i64, g: i64, h: i64, i: i64, j: i64| -> i64 { *ROUTED.lock().unwrap() = vec![a, b, c, d, e, f, g, h, i, j]; 10 });
    e.register_fn("route11", |a: i64, b: i64, c: i64, d: i64, e: i64, f: i64, g: i64, h: i64, i: i64, j: i64, k: i64| -> i64 { *ROUTED.lock().unwrap() = vec![a, b, c, d, e, f, g, h, i, j, k]; 11 });
    e.register_fn("route12", |a: i64, b: i64, c: i64, d: i64, e: i64, f: i64, g: i64, h: i64, i: i64, j: i64, k: i64, l: i64| -> i64 { *ROUTED.lock().unwrap() = vec![a, b, c, d, e, f, g, h, i, j, k, l]; 12 });
    e.register_fn("route13", |a: i64, b: i64, c: i64, d: i64, e: i64, f: i64, g: i64, h: i64, i: i64, j: i64, k: i64, l: i64, m: i64| -> i64 { *ROUTED.lock().unwrap() = vec![a, b, c, d, e, f, g, h, i, j, k, l, m]; 13 });
    e.register_fn("route14", |a: i64, b: i64, c: i64, d: i64, e: i64, f: i64, g: i64, h: i64, i: i64, j: i64, k: i64, l: i64, m: i64, n: i64| -> i64 { *ROUTED.lock().unwrap() = vec![a, b, c, d, e, f, g, h, i, j, k, l, m, n]; 14 });
    e.register_fn("route15", |a: i64, b: i64, c: i64, d: i64, e: i64, f: i64, g: i64, h: i64, i: i64, j: i64, k: i64, l: i64, m: i64, n: i64, o: i64| -> i64 { *ROUTED.lock().unwrap() = vec![a, b, c, d, e, f, g, h, i, j, k, l, m, n, o]; 15 });
    e.register_fn("route16", |a: i64, b: i64, c: i64, d: i64, e: i64, f: i64, g: i64, h: i64, i: i64, j: i64, k: i64, l: i64, m: i64, n: i64, o: i64, p: i64| -> i64 { *ROUTED.lock().unwrap() = vec![a, b, c, d, e, f, g, h, i, j, k, l, m, n, o, p]; 16 });
    e.register_fn("sroute1", |s: &Rec, a: i64| -> i64 { *ROUTED.lock().unwrap() = vec![a]; s.tag });
    e.register_fn("mroute1", |s: &mut Rec, a: i64| -> i64 { *ROUTED.lock().unwrap() = vec![a]; s.tag });
    e.register_fn("sroute2", |s: &Rec, a: i64, b: i64| -> i64 { *ROUTED.lock().unwrap() = vec![a, b]; s.tag });
    e.register_fn("mroute2", |s: &mut Rec, a: i64, b: i64| -> i64 { *ROUTED.lock().unwrap() = vec![a, b]; s.tag });
    e.register_fn("sroute3", |s: &Rec, a: i64, b: i64, c: i64| -> i64 { *ROUTED.lock().unwrap() = vec![a, b, c]; s.tag });
    e.register_fn("mroute3", |s: &mut Rec, a: i64, b: i64, c: i64| -> i64 { *ROUTED.lock().unwrap() = vec![a, b, c]; s.tag });
    e.register_fn("sroute4", |s: &Rec, a: i64, b: i64, c: i64, d: i64| -> i64 { *ROUTED.lock().unwrap() = vec![a, b, c, d]; s.tag });
    e.register_fn("mroute4", |s: &mut Rec, a: i64, b: i64, c: i64, d: i64| -> i64 { *ROUTED.lock().unwrap() = vec![a, b, c, d]; s.tag });
    e.register_fn("sroute5", |s: &Rec, a: i64, b: i64, c: i64, d: i64, e: i64| -> i64 { *ROUTED.lock().unwrap() = vec![a, b, c, d, e]; s.tag });
    e.register_fn("mroute5", |s: &mut Rec, a: i64, b: i64, c: i64, d: i64, e: i64| -> i64 { *ROUTED.lock().unwrap() = vec![a, b, c, d, e]; s.tag });
    e.register_fn("sroute6", |s: &Rec, a: i64, b: i64, c: i64, d: i64, e: i64, f: i64| -> i64 { *ROUTED.lock().unwrap() = vec![a, b, c, d, e, f]; s.tag });
    e.register_fn("mroute6", |s: &mut Rec, a: i64, b: i64, c: i64, d: i64, e: i64, f: i64| -> i64 { *ROUTED.lock().unwrap() = vec![a, b, c, d, e, f]; s.tag });
    e.register_fn("sroute7", |s: &Rec, a: i64, b: i64, c: i64, d: i64, e: i64, f: i64, g: i64| -> i64 { *ROUTED.lock().unwrap() = vec![a, b, c, d, e, f, g]; s.tag });
    e.register_fn("mroute7", |s: &mut Rec, a: i64, b: i64, c: i64, d: i64, e: i64, f: i64, g: i64| -> i64 { *ROUTED.lock().unwrap() = vec![a, b, c, d, e, f, g]; s.tag });
    e.register_fn("sroute8", |s: &Rec, a: i64, b: i64, c: i64, d: i64, e: i64, f: i64, g: i64, h: i64| -> i64 { *ROUTED.lock().unwrap() = vec![a, b, c, d, e, f, g, h]; s.tag });
    e.register_fn("mroute8", |s: &mut Rec, a: i64, b: i64, c: i64, d: i64, e: i64, f: i64, g: i64, h: i64| -> i64 { *ROUTED.lock().unwrap() = vec![a, b, c, d, e, f, g, h]; s.tag });
    e.register_fn("sroute9", |s: &Rec, a: i64, b: i64, c: i64, d: i64, e: i64, f: i64, g: i64, h: i64, i: i64| -> i64 { *ROUTED.lock().unwrap() = vec![a, b, c, d, e, f, g, h, i]; s.tag });
    e.register_fn("mroute9", |s: &mut Rec, a: i64, b: i64, c: i64, d: i64, e: i64, f: i64, g: i64, h: i64, i: i64| -> i64 { *ROUTED.lock().unwrap() = vec![a, b, c, d, e, f, g, h, i]; s.tag });
    e.register_fn("sroute10", |s: &Rec, a: i64, b: i64, c: i64, d: i64, e: i64, f: i64, g: i64, h: i64, i: i64, j: i64| -> i64 { *ROUTED.lock().unwrap() = vec![a, b, c, d, e, f, g, h, i, j]; s.tag });
    e.register_fn("mroute10", |s: &mut Rec, a: i64, b: i64, c: i64, d: i64, e: i64, f: i64, g: i64, h: i64, i: i64, j: i64| -> i64 { *ROUTED.lock().unwrap() = vec![a, b, c, d, e, f, g, h, i, j]; s.tag });
    e.register_fn("sroute11", |s: &Rec, a: i64, b: i64, c: i64, d: i64, e: i64, f: i64, g: i64, h: i64, i: i64, j: i64, k: i64| -> i64 { *ROUTED.lock().unwrap() = vec![a, b, c, d, e, f, g, h, i, j, k]; s.tag });
    e.register_fn("mroute11", |s: &mut Rec, a: i64, b: i64, c: i64, d: i64, e: i64, f: i64, g: i64, h: i64, i: i64, j: i64, k: i64| -> i64 { *ROUTED.lock().unwrap() = vec![a, b, c, d, e, f, g, h, i, j, k]; s.tag });
    e.register_fn("sroute12", |s: &Rec, a: i64, b: i64, c: i64, d: i64, e: i64, f: i64, g: i64, h: i64, i: i64, j: i64, k: i64, l: i64| -> i64 { *ROUTED.lock().unwrap() = vec![a, b, c, d, e, f, g, h, i, j, k, l]; s.tag });
    e.register_fn("mroute12", |s: &mut Rec, a: i64, b: i64, c: i64, d: i64, e: i64, f: i64, g: i64, h: i64, i: i64, j: i64, k: i64, l: i64| -> i64 { *ROUTED.lock().unwrap() = vec![a, b, c, d, e, f, g, h, i, j, k, l]; s.tag });
    e.register_fn("sroute13", |s: &Rec, a: i64, b: i64, c: i64, d: i64, e: i64, f: i64, g: i64, h: i64, i: i64, j: i64, k: i64, l: i64, m: i64| -> i64 { *ROUTED.lock().unwrap() = vec![a, b, c, d, e, f, g, h, i, j, k, l, m]; s.tag });
    e.register_fn("mroute13", |s: &mut Rec, a: i64, b: i64, c: i64, d: i64, e: i64, f: i64, g: i64, h: i64, i: i64, j: i64, k: i64, l: i64, m: i64| -> i64 { *ROUTED.lock().unwrap() = vec![a, b, c, d, e, f, g, h, i, j, k, l, m]; s.tag });
    e.register_fn("sroute14", |s: &Rec, a: i64, b: i64, c: i64, d: i64, e: i64, f: i64, g: i64, h: i64, i: i64, j: i64, k: i64, l: i64, m: i64, n: i64| -> i64 { *ROUTED.lock().unwrap() = vec![a, b, c, d, e, f, g, h, i, j, k, l, m, n]; s.tag });
    e.register_fn("mroute14", |s: &mut Rec, a: i64, b: i64, c: i64, d: i64, e: i64, f: i64, g: i64, h: i64, i: i64, j: i64, k: i64, l: i64, m: i64, n: i64| -> i64 { *ROUTED.lock().unwrap() = vec![a, b, c, d, e, f, g, h, i, j, k, l, m, n]; s.tag });
    e.register_fn("sroute15", |s: &Rec, a: i64, b: i64, c: i64, d: i64, e: i64, f: i64, g: i64, h: i64, i: i64, j: i64, k: i64, l: i64, m: i64, n: i64, o: i64| -> i64 { *ROUTED.lock().unwrap() = vec![a, b, c, d, e, f, g, h, i, j, k, l, m, n, o]; s.tag });
    e.register_fn("mroute15", |s: &mut Rec, a: i64, b: i64, c: i64, d: i64, e: i64, f: i64, g: i64, h: i64, i: i64, j: i64, k: i64, l: i64, m: i64, n: i64, o: i64| -> i64 { *ROUTED.lock().unwrap() = vec![a, b, c, d, e, f, g, h, i, j, k, l, m, n, o]; s.tag });

    let _ = e.run("(define the-rec (make-rec))".to_string());
    for n in 0..=16usize {
        for (family, selfarg, lo, hi, ret) in [("route", "", 0usize, 16usize, None), ("sroute", "the-rec ", 1, 15, Some(7i64)), ("mroute", "the-rec ", 1, 15, Some(7i64))] {
            if n < lo || n > hi {
                continue;
            }
            // two value assignments: ascending and descending, so that a duplicated or swapped index is visible in either
            for variant in 0..2 {
                let vals: Vec<i64> = (0..n).map(|i| if variant == 0 { 101 + i as i64 } else { 900 - 7 * i as i64 }).collect();
                let args: Vec<String> = vals.iter().map(|v| v.to_string()).collect();
                for shape in 0..2 {
                    let code = if shape == 0 { format!("({}{} {}{})", family, n, selfarg, args.join(" ")) } else { format!("(apply {}{} (list {}{}))", family, n, selfarg, args.join(" ")) };
                    ROUTED.lock().unwrap().clear();
                    ROUTED.lock().unwrap().push(-1);
                    let r = show(run1(e, &code));
                    let want_ret = format!("(i {})", ret.unwrap_or(n as i64));
                    out.check("d-result", code.clone(), want_ret, r);
                    let got = ROUTED.lock().unwrap().clone();
                    out.check("d-routing", format!("parameters received by the host body for {}", code), format!("{:?}", vals), format!("{:?}", got));
                }
            }
            // one argument too few / too many: error, body not entered
            for delta in [-1i64, 1] {
                let m = n as i64 + delta;
                if m < 0 {
                    continue;
                }
                let args: Vec<String> = (0..m).map(|i| (i + 1).to_string()).collect();
                let code = format!("({}{} {}{})", family, n, selfarg, args.join(" "));
                ROUTED.lock().unwrap().clear();
                ROUTED.lock().unwrap().push(-1);
                let r = show(run1(e, &code));
                out.check("d-arity", code.clone(), "ERR".to_string(), r);
                let got = ROUTED.lock().unwrap().clone();
                out.check("d-arity-entered", format!("host body entered by {}", code), "[-1]".to_string(), format!("{:?}", got));
            }
        }
    }
    out.cells.push("argument-routing".to_string());
}


// ---- (e) element-wise conversion of containers: a host parameter of type Vec<T> accepts a list / vector exactly when every element
//          converts, and then receives every element in order; otherwise the call is an error and the body is not entered
static SEEN_VEC: std::sync::Mutex<Vec<String>> = std::sync::Mutex::new(Vec::new());

fn part_e(out: &mut Out, e: &mut Engine) {
    e.register_fn("take-vec-u8", |v: Vec<u8>| -> usize { SEEN_VEC.lock().unwrap().push(format!("{:?}", v)); v.len() });
    e.register_fn("take-vec-i64", |v: Vec<i64>| -> usize { SEEN_VEC.lock().unwrap().push(format!("{:?}", v)); v.len() });
    e.register_fn("take-vec-string", |v: Vec<String>| -> usize { SEEN_VEC.lock().unwrap().push(format!("{:?}", v)); v.len() });
    e.register_fn("take-opt-u8", |v: Option<u8>| -> usize { SEEN_VEC.lock().unwrap().push(format!("{:?}", v)); 1 });
    let elems = ["1", "255", "300", "-1", "\"two\"", "2.5"];
    // which element texts convert to which element type, and how the host prints them
    let conv = |ty: &str, el: &str| -> Option<String> {
        match (ty, el) {
            ("u8", "1") | ("i64", "1") => Some("1".to_string()),
            ("u8", "255") | ("i64", "255") => Some("255".to_string()),
            ("i64", "300") => Some("300".to_string()),
            ("i64", "-1") => Some("-1".to_string()),
            ("string", "\"two\"") => Some("\"two\"".to_string()),
            _ => None,
        }
    };
    for (f, ty) in [("take-vec-u8", "u8"), ("take-vec-i64", "i64"), ("take-vec-string", "string")] {
        for n in 0..=3usize {
            let mut idx = vec![0usize; n];
            loop {
                let args: Vec<&str> = idx.iter().map(|i| elems[*i]).collect();
                let converted: Vec<Option<String>> = args.iter().map(|a| conv(ty, a)).collect();
                let ok = converted.iter().all(|c| c.is_some());
                let want_seen = if ok { format!("[{}]", converted.iter().map(|c| c.clone().unwrap()).collect::<Vec<_>>().join(", ")) } else { String::new() };
                for (cname, ctor) in [("list", "list"), ("immutable-vector", "vector-immutable"), ("mutable-vector", "vector")] {
                    let code = format!("({} ({} {}))", f, ctor, args.join(" "));
                    SEEN_VEC.lock().unwrap().clear();
                    let r = show(run1(e, &code));
                    let seen = SEEN_VEC.lock().unwrap().join("|");
                    if cname == "mutable-vector" {
                        // a mutable vector is not promised to convert; if it is accepted the elements must still be exact
                        if r != "ERR" {
                            out.check("e-elements", format!("host saw for {}", code), want_seen.clone(), seen);
                        } else {
                            out.check("e-entered", format!("host body entered by rejected {}", code), String::new(), seen);
                        }
                        continue;
                    }
                    out.check("e-status", code.clone(), (if ok { format!("(i {})", n) } else { "ERR".to_string() }), r);
                    out.check("e-elements", format!("host saw for {}", code), want_seen.clone(), seen);
                }
                // Engine::extract of the same value
                if ty == "u8" {
                    let code = format!("(define *extract-me* (vector-immutable {}))", args.join(" "));
                    let _ = run1(e, &code);
                    let got = match e.extract::<Vec<u8>>("*extract-me*") { Ok(v) => format!("{:?}", v), Err(_) => "ERR".to_string() };
                    out.check("e-extract", format!("extract::<Vec<u8>> of (vector-immutable {})", args.join(" ")), if ok { want_seen.clone() } else { "ERR".to_string() }, got);
                }
                let mut k = 0;
                while k < n {
                    idx[k] += 1;
                    if idx[k] < elems.len() { break; }
                    idx[k] = 0;
                    k += 1;
                }
                if k == n { break; }
            }
        }
    }
    for (arg, want, seen_want) in [("1", "(i 1)", "Some(1)"), ("255", "(i 1)", "Some(255)"), ("300", "ERR", ""), ("-1", "ERR", ""), ("\"two\"", "ERR", ""), ("void", "(i 1)", "None")] {
        let code = format!("(take-opt-u8 {})", arg);
        SEEN_VEC.lock().unwrap().clear();
        let r = show(run1(e, &code));
        let seen = SEEN_VEC.lock().unwrap().join("|");
        if arg == "void" && r == "ERR" { continue; } // whether void means None is not pinned down
        out.check("e-status", code.clone(), want.to_string(), r);
        out.check("e-elements", format!("host saw for {}", code), seen_want.to_string(), seen);
    }
    out.cells.push("container-elements".to_string());
}

// ---- (f) references derived from a lent object: every history of <= 5 operations over two stash slots (derive through each registered
//          shape, release, mutate the parent) against a borrow-count model: the parent may be mutated exactly when no derived
//          reference is alive, and a live derived reference always reads the element it was derived from
pub struct Entry {
    id: usize,
}
impl Entry {
    fn id(&self) -> usize {
        self.id
    }
}
pub struct Registry {
    entries: Vec<Entry>,
}
impl Registry {
    fn entry(&mut self, idx: usize) -> &Entry {
        &self.entries[idx]
    }
    fn first(&mut self) -> &Entry {
        &self.entries[0]
    }
    fn push(&mut self, id: usize) {
        self.entries.push(Entry { id });
    }
    fn len(&mut self) -> usize {
        self.entries.len()
    }
}
impl CustomReference for Entry {}
steel::custom_reference!(Entry);
impl CustomReference for Registry {}
steel::custom_reference!(Registry);

fn part_f(out: &mut Out) {
    use steel::steel_vm::register_fn::MarkerWrapper8;
    let mut e = Engine::new();
    e.register_value("*registry*", SteelVal::Void);
    RegisterFn::<_, MarkerWrapper8<(Registry, usize, Entry, Entry, Registry)>, Entry>::register_fn(&mut e, "registry-entry", Registry::entry);
    RegisterFn::<_, MarkerWrapper8<(Registry, Entry, Entry, Registry)>, Entry>::register_fn(&mut e, "registry-first", Registry::first);
    e.register_fn("registry-push!", Registry::push);
    e.register_fn("registry-len", Registry::len);
    e.register_fn("entry-id", Entry::id);
    // every operation appends one outcome letter to vlog: m = parent mutated, r = mutation refused, d = derived, x = deriving refused, - = released
    let _ = e.run("(define s1 #f) (define s2 #f) (define vlog \"\") (define (note! c) (set! vlog (string-append vlog c))) \
        (define (push!) (note! (with-handler (lambda (e) \"r\") (begin (registry-push! *registry* 9) \"m\")))) \
        (define (try-id s) (if s (with-handler (lambda (e) 'dead) (entry-id s)) 'none)) \
        (define (d1e!) (let ((c (with-handler (lambda (e) #f) (registry-entry *registry* 1)))) (if c (begin (set! s1 c) (note! \"d\")) (note! \"x\")))) \
        (define (d1f!) (let ((c (with-handler (lambda (e) #f) (registry-first *registry*)))) (if c (begin (set! s1 c) (note! \"d\")) (note! \"x\")))) \
        (define (d2e!) (let ((c (with-handler (lambda (e) #f) (registry-entry *registry* 1)))) (if c (begin (set! s2 c) (note! \"d\")) (note! \"x\")))) \
        (define (d2f!) (let ((c (with-handler (lambda (e) #f) (registry-first *registry*)))) (if c (begin (set! s2 c) (note! \"d\")) (note! \"x\")))) \
        (define (r1!) (set! s1 #f) (note! \"-\")) (define (r2!) (set! s2 #f) (note! \"-\"))".to_string());
    let ops: Vec<&str> = vec!["d1e", "d1f", "d2e", "d2f", "r1", "r2", "push"];
    if let Ok(script) = std::env::var("SVH_F_SCRIPT") {
        let mut reg = Registry { entries: vec![Entry { id: 70 }, Entry { id: 71 }] };
        let r = e.run_with_reference::<Registry, Registry>(&mut reg, "*registry*", &script);
        eprintln!("{:?}", r.map(|v| steel::verif::encode(&v)));
        return;
    }
    let ids = [70usize, 71];
    let mut histories = 0usize;
    let mut ideal = 0usize;
    for len in 1..=5usize {
        // the native tier never releases code memory: the 16807 histories of length 5 run on the interpreter (a process can only hold
        // so many executable mappings), the 2800 shorter ones with the default configuration
        if len == 5 { std::env::set_var("STEEL_JIT", "false"); }
        let mut idx = vec![0usize; len];
        loop {
            let names: Vec<&str> = idx.iter().map(|i| ops[*i]).collect();
            let script = format!("(let () (set! vlog \"\") (set! s1 #f) (set! s2 #f) {} (let ((res (list vlog (try-id s1) (try-id s2)))) (set! s1 #f) (set! s2 #f) res))",
                                 names.iter().map(|n| format!("({}!)", n)).collect::<Vec<_>>().join(" "));
            let mut reg = Registry { entries: vec![Entry { id: 70 }, Entry { id: 71 }] };
            let r = std::panic::catch_unwind(std::panic::AssertUnwindSafe(|| e.run_with_reference::<Registry, Registry>(&mut reg, "*registry*", &script)));
            let got = match r { Ok(Ok(v)) => steel::verif::encode(&v), Ok(Err(err)) => { if std::env::var("SVH_DEBUG").is_ok() { eprintln!("{} => {:?}", script, err); } "ERR".to_string() }, Err(_) => "PANIC".to_string() };
            let label = format!("derived-reference history [{}]", names.join(" "));
            // outcome letters observed
            let letters: Vec<char> = match (got.find("(str \""), got.find("\")")) {
                (Some(a), Some(b)) if b >= a + 6 => got[a + 6..b].chars().collect(),
                _ => Vec::new(),
            };
            if letters.len() != len {
                out.check("f-history", label.clone(), format!("{} outcome letters", len), got.clone());
            } else {
                // borrow model driven by the observed outcomes: exclusive use of the parent (deriving, mutating) may only be GRANTED while no
                // derived reference is alive (safety); a refusal is always allowed, but when the ideal model (release is immediate) never
                // refuses a derivation the observed outcomes must be exactly the ideal ones
                let mut s: [Option<usize>; 2] = [None, None];
                let mut nentries = 2usize;
                let mut unsafe_grant: Option<String> = None;
                let mut is_ideal = true;
                for (k, name) in names.iter().enumerate() {
                    let live = s[0].is_some() || s[1].is_some();
                    match (*name, letters[k]) {
                        ("push", 'm') => { if live && unsafe_grant.is_none() { unsafe_grant = Some(format!("step {}: the parent was mutated while a derived reference was alive", k)); } nentries += 1; }
                        ("push", 'r') => { if !live { is_ideal = false; } }
                        ("r1", '-') => s[0] = None,
                        ("r2", '-') => s[1] = None,
                        (d, 'd') if d.starts_with('d') => {
                            if live && unsafe_grant.is_none() { unsafe_grant = Some(format!("step {}: a reference was derived through &mut while another derived reference was alive", k)); }
                            s[if d.starts_with("d1") { 0 } else { 1 }] = Some(if d.ends_with('e') { 1 } else { 0 });
                        }
                        (d, 'x') if d.starts_with('d') => { if !live { is_ideal = false; } }
                        _ => { unsafe_grant = Some(format!("step {}: outcome letter {:?} does not belong to operation {}", k, letters[k], name)); }
                    }
                }
                out.check("f-safety", label.clone(), "no exclusive access granted while a derived reference is alive".to_string(),
                          unsafe_grant.unwrap_or_else(|| "no exclusive access granted while a derived reference is alive".to_string()));
                let show_slot = |x: Option<usize>| match x { Some(k) => format!("(i {})", ids[k]), None => "(sym \"none\")".to_string() };
                let tail = format!("{} {})", show_slot(s[0]), show_slot(s[1]));
                out.check("f-read", format!("{}: what the live derived references read at the end", label), tail.clone(), got[got.find("\") ").map(|p| p + 3).unwrap_or(0)..].to_string());
                out.check("f-host-state", format!("entries of the host object after [{}]", names.join(" ")), nentries.to_string(), reg.entries.len().to_string());
                if is_ideal { ideal += 1; }
                // histories without a second derivation attempt while one is alive involve no delayed release: they must be ideal
                let derives = names.iter().filter(|n| n.starts_with('d')).count();
                if derives <= 1 {
                    out.check("f-liveness", format!("{}: nothing is refused without a live derived reference", label), "ideal".to_string(), (if is_ideal { "ideal" } else { "spurious refusal" }).to_string());
                }
            }
            histories += 1;
            let mut k = 0;
            while k < len {
                idx[k] += 1;
                if idx[k] < ops.len() { break; }
                idx[k] = 0;
                k += 1;
            }
            if k == len { break; }
        }
    }
    std::env::remove_var("STEEL_JIT");
    out.cells.push(format!("derived-references:{}-histories:{}-ideal", histories, ideal));
}

// ---- (c) lent references
struct Counter {
    value: usize,
}
impl Counter {
    fn get(&mut self) -> usize {
        self.value
    }
    fn get_imm(&self) -> usize {
        self.value
    }
    fn bump(&mut self) -> usize {
        self.value += 1;
        self.value
    }
}
impl CustomReference for Counter {}
steel::custom_reference!(Counter);

fn part_c(out: &mut Out) {
    // where the script stashes the lent reference during the lending call, and how it uses it afterwards
    let stashes: Vec<(&str, &str, &str)> = vec![
        ("global", "(set! stash *ext*)", "(ext-get stash)"),
        ("closure", "(set! stash (let ((r *ext*)) (lambda () (ext-get r))))", "(stash)"),
        ("box", "(set! stash (box *ext*))", "(ext-get (unbox stash))"),
        ("vector", "(set! stash (vector *ext*))", "(ext-get (vector-ref stash 0))"),
        ("list", "(set! stash (list 1 *ext*))", "(ext-get (car (cdr stash)))"),
        ("hash", "(set! stash (hash 'k *ext*))", "(ext-get (hash-ref stash 'k))"),
        ("struct", "(set! stash (Holder *ext*))", "(ext-get (Holder-r stash))"),
        ("continuation", "(set! stash (let ((r *ext*)) (call/cc (lambda (k) (lambda () (ext-get r))))))", "(stash)"),
        ("returned", "(begin (set! stash 'unused) *ext*)", "RETURNED"),
        ("bump-later", "(set! stash *ext*)", "(ext-bump stash)"),
        ("imm-later", "(set! stash *ext*)", "(ext-get-imm stash)"),
        ("second-global", "(begin (set! stash *ext*) (set! stash2 stash))", "(ext-get stash2)"),
    ];
    for (name, stash, later) in stashes {
        let mut e = Engine::new();
        e.register_value("*ext*", SteelVal::Void);
        e.register_fn("ext-get", Counter::get);
        e.register_fn("ext-get-imm", Counter::get_imm);
        e.register_fn("ext-bump", Counter::bump);
        let _ = e.run("(define stash #f) (define stash2 #f) (struct Holder (r))".to_string());
        let mut obj = Counter { value: 10 };
        let during = std::panic::catch_unwind(std::panic::AssertUnwindSafe(|| {
            e.run_with_reference::<Counter, Counter>(&mut obj, "*ext*", &format!("(begin (ext-bump *ext*) {} )", stash))
        }));
        let returned = match during {
            Ok(Ok(v)) => Some(v),
            Ok(Err(_)) => {
                out.check("c-during", format!("{}: lending call with stash {}", name, stash), "ok".to_string(), "ERR".to_string());
                None
            }
            Err(_) => {
                out.check("c-during", format!("{}: lending call", name), "ok".to_string(), "PANIC".to_string());
                None
            }
        };
        out.check("c-host-state", format!("{}: host object after the lending call", name), "11".to_string(), obj.value.to_string());
        // use after the borrow ended: same run sequence, and again in a later run
        for attempt in 0..2 {
            let got = if later == "RETURNED" {
                match &returned {
                    Some(v) => {
                        e.register_value("ret", v.clone());
                        show(run1(&mut e, "(ext-get ret)"))
                    }
                    None => "ERR".to_string(),
                }
            } else {
                show(run1(&mut e, later))
            };
            out.check("c-use-after", format!("{}: {} after the lending call returned (attempt {})", name, later, attempt), "ERR".to_string(), got);
        }
        out.check("c-host-state", format!("{}: host object after the late uses", name), "11".to_string(), obj.value.to_string());
        // the engine is still usable and a fresh lend works
        let again = std::panic::catch_unwind(std::panic::AssertUnwindSafe(|| e.run_with_reference::<Counter, Counter>(&mut obj, "*ext*", "(ext-get *ext*)")));
        let again_s = match again {
            Ok(Ok(v)) => steel::verif::encode(&v),
            Ok(Err(_)) => "ERR".to_string(),
            Err(_) => "PANIC".to_string(),
        };
        out.check("c-relend", format!("{}: a second lend after the late uses", name), "(i 11)".to_string(), again_s);
        out.cells.push(format!("lent:{}", name));
    }
}

static mut INNER_ENGINE: *mut Engine = std::ptr::null_mut();
static mut INNER_OBJ: *mut Counter = std::ptr::null_mut();
static INNER_RESULT: std::sync::Mutex<Vec<String>> = std::sync::Mutex::new(Vec::new());

/// host function called by the OUTER script while the outer reference is lent: lends a second object to a second engine, whose script
/// stashes it; after that inner lend has ended the stash must be dead while the outer lend is still alive
fn inner_lend() -> isize {
    unsafe {
        let e2 = &mut *INNER_ENGINE;
        let obj = &mut *INNER_OBJ;
        let r = e2.run_with_reference::<Counter, Counter>(obj, "*ext*", "(begin (set! stash *ext*) (ext-bump *ext*))");
        let mut log = INNER_RESULT.lock().unwrap();
        log.push(format!("inner-lend:{}", match r { Ok(v) => steel::verif::encode(&v), Err(_) => "ERR".to_string() }));
        log.push(format!("inner-late-use:{}", show(run1(e2, "(ext-bump stash)"))));
        log.push(format!("inner-obj:{}", obj.value));
    }
    0
}

fn part_c_nested(out: &mut Out) {
    for order in 0..2 {
        let mut e1 = Engine::new();
        let mut e2 = Engine::new();
        for e in [&mut e1, &mut e2] {
            e.register_value("*ext*", SteelVal::Void);
            e.register_fn("ext-get", Counter::get);
            e.register_fn("ext-bump", Counter::bump);
            let _ = e.run("(define stash #f)".to_string());
        }
        e1.register_fn("inner-lend", inner_lend);
        let mut a = Counter { value: 100 };
        let mut b = Counter { value: 500 };
        INNER_RESULT.lock().unwrap().clear();
        unsafe {
            INNER_ENGINE = &mut e2 as *mut Engine;
            INNER_OBJ = &mut b as *mut Counter;
        }
        // order 0: use the outer reference after the inner lend; order 1: also stash the outer reference before the inner lend
        let script = if order == 0 { "(begin (inner-lend) (ext-bump *ext*))" } else { "(begin (set! stash *ext*) (ext-bump *ext*) (inner-lend) (ext-get *ext*))" };
        let r = std::panic::catch_unwind(std::panic::AssertUnwindSafe(|| e1.run_with_reference::<Counter, Counter>(&mut a, "*ext*", script)));
        let outer = match r { Ok(Ok(v)) => steel::verif::encode(&v), Ok(Err(_)) => "ERR".to_string(), Err(_) => "PANIC".to_string() };
        out.check("c-nested", format!("nested lend (variant {}): outer reference still usable after the inner lend ended", order), "(i 101)".to_string(), outer);
        let log = INNER_RESULT.lock().unwrap().clone();
        out.check("c-nested", format!("nested lend (variant {}): inner lend / late use of the inner stash / inner object", order),
                  "inner-lend:(i 501) inner-late-use:ERR inner-obj:501".to_string(), log.join(" "));
        let late2 = show(run1(&mut e2, "(ext-bump stash)"));
        out.check("c-nested", format!("nested lend (variant {}): inner stash after everything returned", order), "ERR".to_string(), late2);
        if order == 1 {
            let late1 = show(run1(&mut e1, "(ext-bump stash)"));
            out.check("c-nested", "nested lend: outer stash after everything returned".to_string(), "ERR".to_string(), late1);
        }
        out.check("c-nested", format!("nested lend (variant {}): host objects afterwards", order), "101 501".to_string(), format!("{} {}", a.value, b.value));
        out.cells.push(format!("lent:nested-{}", order));
    }
}

pub fn main(_args: &[String]) {
    crate::evalsrv::install_panic_hook();
    let stdin = std::io::stdin();
    let stdout = std::io::stdout();
    {
        let mut o = stdout.lock();
        let _ = writeln!(o, "{}", json!({"ready":true}));
        let _ = o.flush();
    }
    for line in stdin.lock().lines() {
        let line = match line {
            Ok(l) => l,
            Err(_) => break,
        };
        if line.trim().is_empty() {
            continue;
        }
        let req: Value = serde_json::from_str(&line).unwrap_or(Value::Null);
        let part = req.get("part").and_then(|p| p.as_str()).unwrap_or("all").to_string();
        let res = fork_run(300000, |emit| {
            let mut out = Out { checks: 0, fails: Vec::new(), cells: Vec::new() };
            if part == "all" || part == "a" {
                let mut e = Engine::new();
                part_a(&mut out, &mut e);
            }
            if part == "all" || part == "b" {
                let mut e = Engine::new();
                part_b(&mut out, &mut e);
            }
            if part == "all" || part == "d" {
                let mut e = Engine::new();
                part_d(&mut out, &mut e);
            }
            if part == "all" || part == "e" {
                let mut e = Engine::new();
                part_e(&mut out, &mut e);
            }
            if part == "all" || part == "f" {
                part_f(&mut out);
            }
            if part == "all" || part == "c" {
                part_c(&mut out);
                part_c_nested(&mut out);
            }
            emit(&json!({"checks": out.checks, "cells": out.cells, "fails": out.fails}).to_string());
        });
        let mut o = stdout.lock();
        for l in &res.lines {
            let _ = writeln!(o, "{}", l);
        }
        let _ = writeln!(o, "{}", json!({"done":true,"exit":res.exit}));
        let _ = o.flush();
    }
}
